#!/bin/sh
# Offline setup: make sure hypothesis (and, for the C11 thorough tier, atheris) are importable by /venv/bin/python.
cd "$(dirname "$0")/.." || exit 2
/venv/bin/python -c "import hypothesis" 2>/dev/null || \
  /venv/bin/pip install --no-index --find-links /opt/veriftools/wheels --target .deps hypothesis >/dev/null 2>&1
PYTHONPATH=.deps /venv/bin/python -c "import atheris" 2>/dev/null || \
  /venv/bin/pip install --no-index --find-links /opt/veriftools/wheels --target .deps atheris >/dev/null 2>&1 || true
PYTHONPATH=.deps /venv/bin/python -c "
import sys
sys.path.insert(0, 'lib')
from vlib import core
core.bootstrap()
import hypothesis, ply, jinja2
print('setup ok: hypothesis', hypothesis.__version__)
"
