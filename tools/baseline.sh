#!/bin/sh
# Runs the repository's pinned test suite (guard off - no hooks exist) and prints the summary line.
cd /repo && /venv/bin/python -m pytest -ra -q -p no:cacheprovider --timeout=900 --continue-on-collection-errors 2>&1 | tail -4
