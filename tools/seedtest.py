#!/venv/bin/python
"""Apply a seeded change (a diff) to /repo, run the given checks (quick tier), always undo it.

usage: seedtest.py PATCH.diff CHECK [CHECK...]      (never commits anything in /repo)
"""
import os
import subprocess
import sys
import time

patch = os.path.abspath(sys.argv[1])
checks = sys.argv[2:]
st = subprocess.run(['git', '-C', '/repo', 'status', '--porcelain', '--untracked-files=no'], capture_output=True, text=True).stdout.strip()
assert st == '', 'repo dirty: ' + st
r = subprocess.run(['git', '-C', '/repo', 'apply', patch], capture_output=True, text=True)
if r.returncode != 0:
    print('PATCH DOES NOT APPLY', r.stderr[:300])
    sys.exit(2)
try:
    for c in checks:
        env = dict(os.environ, VERIF_SHRINK_S=os.environ.get('VERIF_SHRINK_S', '5'), VERIF_OUT='/tmp/verif-mutant-out')
        t0 = time.time()
        p = subprocess.run(['/venv/bin/python', '/verif/run_check.py', c, '--tier', os.environ.get('TIER', 'quick')],
                           capture_output=True, text=True, env=env, cwd='/verif')
        lines = [l for l in p.stdout.splitlines() if l.startswith('VIOLATION') or l.startswith('  ')]
        print('%s exit=%d %.0fs %s' % (c, p.returncode, time.time() - t0, ' | '.join(l.strip()[:200] for l in lines[:2])))
        if p.returncode == 2:
            print(p.stderr[-600:])
finally:
    subprocess.run(['git', '-C', '/repo', 'checkout', '--', '.'])
    for c in checks:
        subprocess.run(['rm', '-rf', '/verif/replays/%s' % c])
    subprocess.run(['git', '-C', '/verif', 'checkout', '--', 'evidence'], capture_output=True)
