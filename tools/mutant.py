#!/venv/bin/python
"""Apply a one-off textual mutation to /repo, run checks (quick), always revert. For sensitivity testing only.

usage: mutant.py FILE 'old' 'new' CHECK [CHECK...]
"""
import subprocess
import sys
import os

f, old, new = sys.argv[1:4]
checks = sys.argv[4:]
path = os.path.join('/repo', f)
s = open(path).read()
if old not in s:
    print('PATTERN NOT FOUND')
    sys.exit(2)
assert subprocess.run(['git', '-C', '/repo', 'status', '--porcelain', '--untracked-files=no'], capture_output=True, text=True).stdout.strip() == '', 'repo dirty'
open(path, 'w').write(s.replace(old, new, 1))
try:
    for c in checks:
        env = dict(os.environ, VERIF_SHRINK_S='5', VERIF_OUT='/tmp/verif-mutant-out')
        r = subprocess.run(['/venv/bin/python', '/verif/run_check.py', c, '--tier', 'quick'], capture_output=True, text=True, env=env, cwd='/verif')
        lines = [l for l in r.stdout.splitlines() if l.startswith('VIOLATION') or l.startswith('  ')]
        print('%s exit=%d %s' % (c, r.returncode, ' | '.join(l.strip()[:160] for l in lines[:2])))
        if r.returncode == 2:
            print(r.stderr[-500:])
finally:
    subprocess.run(['git', '-C', '/repo', 'checkout', '--', '.'])
    subprocess.run(['rm', '-rf'] + ['/verif/replays/%s' % c for c in checks])
