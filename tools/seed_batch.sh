#!/bin/sh
# usage: seed_batch.sh OUTDIR PROP [EXTRA_CHECKS...]  - for change1..3 in OUTDIR: confirm (tests, demo with/without) in the
# scratch worktree /tmp/seed/verify, then run PROP's check and EXTRA_CHECKS (quick) against the patched scratch worktree.
D=$1; P=$2; shift; shift
for k in 1 2 3; do
  [ -f $D/change$k.diff ] || continue
  echo "## $P-$k :: $(head -c 300 $D/note$k.txt | tr '\n' ' ')"
  sh /verif/tools/seed_verify.sh $D/change$k.diff $D/demo$k.py
  sh /verif/tools/seedscratch.sh $D/change$k.diff $P "$@"
done
