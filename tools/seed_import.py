#!/venv/bin/python
"""Import sub-agent deliverables into /verif/seeded/<id>/ (patch.diff, demo.py, meta.json).

usage: seed_import.py OUTDIR PROP K ID  "needs" "detected_by" "detection note"
The change description is taken from note<K>.txt written by the sub-agent.
"""
import json
import os
import shutil
import sys

outdir, prop, k, sid, needs, detected_by, note = sys.argv[1:8]
dst = os.path.join('/verif/seeded', sid)
os.makedirs(dst, exist_ok=True)
shutil.copy(os.path.join(outdir, 'change%s.diff' % k), os.path.join(dst, 'patch.diff'))
shutil.copy(os.path.join(outdir, 'demo%s.py' % k), os.path.join(dst, 'demo.py'))
with open(os.path.join(outdir, 'note%s.txt' % k)) as f:
    change = ' '.join(f.read().split())
meta = {
    'id': sid, 'property': prop, 'change': change, 'needs_to_manifest': needs,
    'origin': 'written by an independent sub-agent (round 2) that saw only the property text and a scratch worktree',
    'confirmed': 'tools/seed_verify.sh: patch applies to /repo HEAD in a scratch worktree, 86 pinned tests pass with it, '
                 'demo.py exits 1 with the patch and 0 without (run from the worktree root)',
    'detection': note, 'detected_by': detected_by,
    'what_i_ran': 'tools/seedscratch.sh seeded/%s/patch.diff <checks> (quick tier against a scratch worktree of /repo HEAD '
                  'with the patch applied; /repo itself untouched)' % sid,
}
with open(os.path.join(dst, 'meta.json'), 'w') as f:
    json.dump(meta, f, indent=1)
print('imported', sid)
