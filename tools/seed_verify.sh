#!/bin/sh
# usage: seed_verify.sh PATCH DEMO  - confirms in the scratch worktree /tmp/seed/verify (at /repo's HEAD) that the
# patch applies, the 86 pinned tests still pass with it, and the demo fails with / passes without it.
WT=${WT:-/tmp/seed/verify}
PATCH=$(readlink -f "$1"); DEMO=$(readlink -f "$2")
cd $WT || exit 2
git checkout -q --detach $(git -C /repo rev-parse HEAD) 2>/dev/null; git checkout -q -- .
git apply "$PATCH" || { echo "APPLY-FAILED"; exit 2; }
T=$(/venv/bin/python -m pytest -q -p no:cacheprovider --continue-on-collection-errors 2>&1 | tail -1)
/venv/bin/python "$DEMO" >/dev/null 2>&1; WITH=$?
git checkout -q -- .
/venv/bin/python "$DEMO" >/dev/null 2>&1; WITHOUT=$?
echo "tests-with-patch: $T | demo with patch exit=$WITH | demo without patch exit=$WITHOUT"
