#!/venv/bin/python
"""Import a round-4 sub-agent deliverable (/tmp/seed/r4/<P>.patch, <P>.demo.py, <P>.meta.json) into /verif/seeded/<P>-I/.

usage: seed_import4.py PROP "detected_by" "detection note"
"""
import json
import os
import shutil
import sys

prop, detected_by, note = sys.argv[1:4]
src = '/tmp/seed/r4/' + prop
sid = prop + '-I'
dst = os.path.join('/verif/seeded', sid)
os.makedirs(dst, exist_ok=True)
shutil.copy(src + '.patch', os.path.join(dst, 'patch.diff'))
shutil.copy(src + '.demo.py', os.path.join(dst, 'demo.py'))
with open(src + '.meta.json') as f:
    m = json.load(f)
meta = {
    'id': sid, 'property': prop, 'change': ' '.join(str(m.get('change', '')).split()),
    'needs_to_manifest': ' '.join(str(m.get('needs_to_manifest', '')).split()),
    'origin': 'written by an independent sub-agent (round 4) that saw only the property text and a scratch worktree',
    'confirmed': 'tools/seed_verify.sh: patch applies to /repo HEAD in a scratch worktree, 86 pinned tests pass with it, '
                 'demo.py exits 1 with the patch and 0 without (run from the worktree root as _seed/demo.py or by absolute path)',
    'detection': note, 'detected_by': detected_by,
    'what_i_ran': 'tools/seedscratch.sh seeded/%s/patch.diff <checks> at VERIF_SEED 1 and 2 (quick tier against a scratch '
                  'worktree of /repo HEAD with the patch applied; /repo itself untouched)' % sid,
}
with open(os.path.join(dst, 'meta.json'), 'w') as f:
    json.dump(meta, f, indent=1)
print('imported', sid)
