#!/bin/sh
# usage: run_all.sh SEED [TIER] [CHECK...]  - runs the registered checks sequentially, prints one summary line each
cd "$(dirname "$0")/.." || exit 2
SEED=${1:-1}; TIER=${2:-quick}; shift; shift
CHECKS="$*"
[ -z "$CHECKS" ] && CHECKS=$(/venv/bin/python -c "import json;print(' '.join(c['property_id'] for c in json.load(open('MANIFEST.json'))['checks']))")
for c in $CHECKS; do
  start=$(date +%s)
  out=$(VERIF_SEED=$SEED PYTHONHASHSEED=${PYTHONHASHSEED:-0} /venv/bin/python run_check.py $c --tier $TIER 2>&1)
  rc=$?
  echo "== $c seed=$SEED tier=$TIER exit=$rc $(( $(date +%s) - start ))s :: $(echo "$out" | grep -E '^(VIOLATION|HARNESS|  )' | head -3 | cut -c1-300 | tr '\n' '|')"
done
