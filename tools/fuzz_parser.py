#!/venv/bin/python
"""atheris (libFuzzer) target for C11: parse(bytes) under one dialect, with the C11 oracle inside the target.

Run by checks/c11.py in the thorough tier:  fuzz_parser.py CORPUS_DIR -runs=N -seed=S ...
env C11_DIALECT = smiV2 | smiV1 | smiV1Relaxed ; C11_SEED_CORPUS=1 writes a few generated valid texts first.
A crash (uncaught exception) = violation; the offending input is saved by libFuzzer under -artifact_prefix.
"""
import os
import re
import sys

import atheris

HERE = os.path.dirname(os.path.dirname(os.path.abspath(__file__)))
sys.path.insert(0, os.path.join(HERE, 'lib'))
from vlib import core  # noqa: E402

core.bootstrap()

with atheris.instrument_imports(include=['pysmi']):
    from pysmi.parser.smi import parserFactory
    from pysmi.parser import dialect as dl
    from pysmi import error

DIALECT = os.environ.get('C11_DIALECT', 'smiV2')
PARSER = parserFactory(**getattr(dl, DIALECT))()
NL = re.compile(r'\r\n|\n|\r')


class OracleFailure(Exception):
    pass


def one_input(data):
    text = data.decode('utf-8', 'ignore')
    PARSER.reset()   # the lexer is the only state of the parser object
    try:
        res = PARSER.parse(text)
    except error.PySmiLexerError as e:
        ln = e.lineno
        nlines = len(NL.findall(text)) + 1
        if not isinstance(ln, int) or isinstance(ln, bool) or not (1 <= ln <= nlines + 1):
            raise OracleFailure('line %r out of range for %d lines' % (ln, nlines))
        return
    # any other exception type propagates = crash = violation
    if not isinstance(res, list):
        raise OracleFailure('parse returned %r' % type(res))
    if res:
        # a successful parse means a complete file: its last significant token must be END
        stripped = re.sub(r'--[^\r\n]*', '', text)
        if not re.search(r'END\s*$', stripped):
            # comment removal is approximate inside quoted strings; only flag when END is nowhere near the end
            tail = stripped.rstrip()[-40:]
            if 'END' not in tail:
                raise OracleFailure('accepted a text that does not end with END: %r' % tail)


def main():
    argv = [a for a in sys.argv]
    corpus = [a for a in argv[1:] if not a.startswith('-')]
    if os.environ.get('C11_SEED_CORPUS') == '1' and corpus:
        from vlib import mibgen
        import hypothesis
        from hypothesis import settings, given, HealthCheck
        texts = []

        @hypothesis.seed(7)
        @settings(max_examples=12, database=None, deadline=None, suppress_health_check=list(HealthCheck),
                  phases=[hypothesis.Phase.generate])
        @given(mibgen.module_sets(mibgen.profile(dialects=('v1',) if DIALECT != 'smiV2' else ('v2',), modules=(1, 1),
                                                 decls=(1, 6), texts='short')))
        def collect(ms):
            texts.append(mibgen.render_simple(ms['modules'][0]))
        collect()
        for i, t in enumerate(texts):
            with open(os.path.join(corpus[0], 'seed%d' % i), 'w') as f:
                f.write(t)
    atheris.Setup(argv, one_input)
    atheris.Fuzz()


if __name__ == '__main__':
    main()
