#!/bin/sh
# usage: seedscratch.sh PATCH CHECK [CHECK...] - runs checks (quick) against the scratch worktree /tmp/seed/verify
# with PATCH applied (PYSMI_REPO points the checks there; /repo itself is not touched). Output under /tmp/seed/out.
WT=${WT:-/tmp/seed/verify}
PATCH=$(readlink -f "$1"); shift
cd $WT || exit 2
git checkout -q -- . ; git apply "$PATCH" || { echo APPLY-FAILED; exit 2; }
for c in "$@"; do
  o=$(cd /verif && PYSMI_REPO=$WT VERIF_OUT=/tmp/seed/out VERIF_SHRINK_S=5 /venv/bin/python run_check.py $c --tier ${TIER:-quick} 2>&1)
  echo "$c exit=$? :: $(echo "$o" | grep -E '^(  |HARNESS)' | head -2 | cut -c1-220 | tr '\n' '|')"
done
git checkout -q -- .
