#!/venv/bin/python
"""Regenerates /verif/MANIFEST.json from the table below (keeps it valid at all times)."""
import json
import os
import subprocess

HERE = os.path.dirname(os.path.dirname(os.path.abspath(__file__)))

# property id -> (level, technique, level text, level note, design ref)
CHECKS = {
    'C02': ('exploration',
            'Hypothesis model-based generation; reference-model oracle (expected tree) + layout metamorphic relation',
            'Generated-input search: thousands of well-formed module files per run, every clause kind, parsed under '
            'every dialect that admits them and compared with a tree built from the model (not from the text); two '
            'independent layouts must parse identically. Right level because the property quantifies over all '
            'texts/layouts - only sampling with an independent oracle scales to that domain.',
            'Trusts the model-side expected_tree transcription of the documented tree shape (DESIGN appendix A) '
            'and the renderer\'s token/separator rules; never proves absence.', '4/C02'),
    'C01': ('exploration',
            'Hypothesis model-based module sets; oracle = the model\'s own OID resolution vs JSON oid, recorded pysnmp '
            'constructor argument and compile() status attributes',
            'Generated-input search over OID tree shapes, declaration orders, import chains and sub-identifier '
            'spellings; the expected OID of every node is computed by the generator\'s model (parent OID + arcs) and '
            'compared with all three observation points; compile() must report every module compiled.',
            'Trusts the model-side OID arithmetic and the hand-written fixture base modules; names are unique '
            'across a generated set.', '4/C01'),
    'C03': ('exploration',
            'Hypothesis model-based modules (all declaration kinds mixed); reference-model oracle for key set and '
            'per-entry members of the JSON document',
            'Every generated module is compiled to JSON, parsed with json.loads and compared with the entries '
            'derived from the model: exact key set, class, nodetype, status, maxaccess, units, revisions, '
            'lastupdated, productrelease.',
            'Trusts oracle.expected_entries (DESIGN appendix B); SEQUENCE/MACRO/CHOICE definitions are exempt.',
            '4/C03'),
    'C05': ('exploration',
            'Hypothesis model-based syntaxes/DEFVALs with boundary literals; reference-model oracle on JSON members '
            'and on attributes captured by a recording MIB builder',
            'Generated types, refinements (dec/hex/bin literals at token-class boundaries), derived-type chains '
            'across modules and every DEFVAL notation; JSON syntax/type/default members and the executed pysnmp '
            'classes (subtypeSpec additions, namedValues, default*) must carry exactly the written values.',
            'Trusts the reference syntax/default model and the recording builder\'s reading of the generated '
            'Python; DEFVALs are generated only within the constraints in force.', '4/C05'),
    'C04': ('exploration',
            'Hypothesis model-based module sets; compile+exec against a recording MIB builder, JSON<->pysnmp '
            'differential, import/export closure invariant, and loading the whole set in a real pysnmp MibBuilder',
            'Every generated set is rendered by both backends from the same tree; the Python must compile, execute, '
            'export every symbol of the model under the module name, agree with the JSON document on OID / kind / '
            'base type / access, export everything other generated modules import, and load together in pysnmp '
            'with getName() == model OID; one compile() call for the set must look up every module its outputs import from.',
            'Recording builder stands in for pysnmp in facets 1-4; pysnmp 7.1 is trusted for facet 5. Classes of '
            'open findings (known_findings.json) are excluded by construction and probed on every run.', '4/C04'),
    'C06': ('exploration',
            'Hypothesis model-based tables / lists / compliance statements; reference-model oracle on JSON members '
            'and on calls captured by the recording builder',
            'Generated tables with own, foreign, imported and IMPLIED indices, augmenting rows, member lists mixing '
            'local and imported objects, multi-clause compliance statements; nodetype, indices, augmention, objects '
            'and modulecompliance (JSON) and setIndexNames / registerAugmentions / setObjects (pysnmp) must list the '
            'same targets in the same order with the defining module.',
            'Trusts the reference model of references; attribution = defining generated module.', '4/C06'),
    'C15': ('exploration',
            'Hypothesis trouble-weighted string alphabet in every text-bearing clause; exact / normalised / '
            'whitespace-free equality oracle on JSON members and recorded pysnmp strings',
            'Texts with backslashes, quotes, Jinja look-alikes, all line-break kinds, long unbroken words and '
            'non-ASCII characters are placed in every text clause; JSON must reproduce them exactly (identity '
            'filter) or run-normalised (default), and only when requested; strings obtained by executing the '
            'pysnmp module must equal the source up to whitespace.',
            'While finding D18 (unescaped texts in the pysnmp template) is open the pysnmp facet runs on the '
            'alphabet without backslashes and single-line clauses without line breaks.', '4/C15'),
    'C16': ('exploration',
            'Hypothesis SMIv1 module sets rendered twice (SMIv1 / mechanical SMIv2 transliteration) with a '
            'differential oracle; exhaustive sweep of an RFC-derived (base module, symbol) import table',
            'A: both renderings are compiled by both backends and must yield the same symbols, OIDs, kinds, node '
            'types, access and references; SMIv1 types must become Counter32/Gauge32/IpAddress/Integer32 classes; '
            'traps must be notifications at enterprise.0.n. B: every symbol of the SMIv1 base modules that has an '
            'SMIv2 home (457 pairs, enumerated completely) must be imported from that home in JSON and pysnmp.',
            'The reference table (vlib/smiv1ref.py) is my transcription of the RFCs and is the trusted base of B; '
            'STATUS is not compared.', '4/C16'),
    'C17': ('exploration',
            'Hypothesis texts x pairs of buildable relaxation-option subsets (tree equality across the lattice and '
            'with the model tree); documented breakages injected at every applicable site; thorough: all 384 subsets',
            'For D <= D\' a legal text must parse identically under both and equal the model tree; each of the nine '
            'options must accept its documented malformed construct at every site where it can occur and give the '
            'tree of the corrected text; unknown option names must raise PySmiError.',
            'Lone supportIndex is not buildable and not a case; texts avoid the words the SMIv1 keyword set '
            'reserves.', '4/C17'),
    'C07': ('exploration',
            'Hypothesis scenarios over scripted reader/searcher/borrower/writer/codegen doubles around the real '
            'parser and symbol table; invariants over (scenario, call log, result) + metamorphic heal-one-module relation',
            'compile() is driven with generated import graphs, per-(source, module) outcomes (absent, reader error, '
            'good, lexical/syntax/truncated/semantic defect, empty), generator and writer failures and all options; '
            'every run must return a mapping with one of six statuses for the whole closure, write each module at '
            'most once, report compiled/borrowed exactly when the writer accepted the text, hand the generator\'s '
            'text over unchanged and attach the causing error; healing one bad module must not change unrelated ones. '
            'A quarter of the scenarios makes earlier compile() calls on the same compiler first; a small scope of '
            '900 000 scenarios (two user modules, two sources) is enumerated completely in the thorough tier, every 61st in the quick tier.',
            'Doubles signal failures only through PySmiError subclasses; the closure/supplier model in vlib/orch.py '
            'is the trusted base.', '4/C07'),
    'C08': ('exploration',
            'Hypothesis import digraphs x source assignments on the orchestration harness; closure model + call-order '
            'invariants + call budget for termination',
            'Result keys must cover the model\'s import closure; each (source, name) is asked at most once, sources in '
            'the order added and none after the first usable copy, whose (source-marked) text is what gets parsed; a '
            'budget of 400 calls per module turns non-termination into a violation. The 75 000 small-scope scenarios of '
            'this domain are enumerated completely in the thorough tier (every 7th in quick).',
            'Termination is bounded-call, not a proof; "first source" = first usable text.', '4/C08'),
    'C09': ('exploration',
            'Hypothesis failure placements on the orchestration harness; all-or-nothing invariant over the call log',
            'For every generated placement of find/parse/generate failures (with and without borrowers, ignoreErrors '
            'on/off) the writer must receive nothing and built modules must be unprocessed when a failure remains, '
            'and receive every built module exactly once when errors are ignored; also after earlier compile() calls on '
            'the same object, and over the complete small scope (thorough; every 31st scenario in quick).',
            'Writer failures are outside the failure set, as in the statement.', '4/C09'),
    'C10': ('exploration',
            'Hypothesis searcher lists on the orchestration harness (protocol invariants) + exhaustive enumeration of '
            'real file searchers (directory, package, zipped package) over an mtime/decoy/name lattice on a temp directory '
            '+ Hypothesis sub-second file times handed from a real FileReader to a real searcher',
            'A: order, rebuild flag, stop at first fresh, fresh => untouched and never generated, noDeps semantics, '
            'stub lists immune to rebuild. B: ~1200 combinations of searcher kind x module name (incl. mixed case) x '
            'destination mtime around equality x decoys x rebuild, enumerated completely against a reference predicate. '
            'C: up to date iff the copy is not older than the source at full precision (either answer within one second).',
            'B/C trust os.utime/os.stat (ns) on the sandbox filesystem and zipimport for the zipped package.', '4/C10'),
    'C19': ('exploration',
            'Hypothesis borrower lists x failure placements on the orchestration harness (real AnyFileBorrower over '
            'scripted readers) + real borrowers over generated directories',
            'Borrowers must be consulted only for failed modules, in order, with the request flavour, never past the '
            'first that returns; the borrowed text must be written verbatim with status borrowed; noDeps keeps '
            'requested modules eligible; real borrowers only return files with a listed extension. Warm-up compile() calls '
            'and the complete small scope as for C07.',
            'Model of "failed" = no usable source or generator raised.', '4/C19'),
    'C18': ('exploration',
            'Hypothesis histories of incremental index builds over colliding OID sets; validity-predicate oracle '
            '(component-wise cover, no foreign listing, section equality, monotone merge, byte idempotence); exhaustive small scope',
            'Each history of 1-4 batches is indexed step by step (genIndex, and buildIndex with a real FileWriter); '
            'after every step every OID ever defined must be covered by a component-wise prefix entry naming its '
            'module, no module may be listed under an OID it does not define, identity/enterprise/compliance must be '
            'exact, and re-indexing the step must not change a byte. 4k small-scope histories are enumerated completely.',
            'Status objects are built the way compile() builds them; cumulative cover implies monotonicity.', '4/C18'),
    'C13': ('fault_enumeration',
            'complete enumeration of (system-call site x fault kind) per writer configuration through fault-injecting '
            'os/tempfile/py_compile proxies; Hypothesis-drawn interleavings of two writers under a harness scheduler',
            'For every configuration the call sites of putData() are recorded, then every site is failed once with '
            'every fault kind (errno errors before the effect, close failing after closing, short writes of 0/1/half/'
            'len-1 bytes, the same error persisting over retries, PyCompileError/SyntaxError/OSError from py_compile); after each faulted call the destination '
            'must hold its previous or the complete new content, no temporary file may remain, only PySmiWriterError '
            'may escape, a normal return implies full content on disk; dry-run and writeMibs=False leave the '
            'directory snapshot unchanged. Two concurrent writers are stepped site by site.',
            'One faulty step per call (failing once or on every retry), injected at the granularity of the Python-level os/tempfile/py_compile calls the '
            'writers make; schedules are sampled and owned by the harness (no kernel-level preemption).', '4/C13'),
    'C14': ('exploration',
            'Hypothesis directory trees / nested ZIP archives (also trees of same-named inner archives, several requests on one reader; pairs of live directory readers) / stubbed HTTP servers x names x matching options against '
            'an independent reference of the documented name variants; complete enumeration of a URL dispatch table',
            'Generated trees and archives (sub-directories, duplicate basenames, archives nested to depth 3, invalid '
            'UTF-8) are served through FileReader / ZipReader / HttpReader(stub urlopen) / CallbackReader; a returned '
            'file must be an allowed variant of the request with exactly its decoded bytes and mtime, not-found is '
            'only valid when no required variant exists, the .index mapping wins; all URL shapes of the table map to the reader '
            'kind and parameters their scheme and extension denote, alone and in lists of 2-4 URLs per call.',
            'The variant reference (required / allowed sets) is my reading of the statement; any matching file is '
            'accepted when several exist; no network: FTP only by dispatch, HTTP through a stub.', '4/C14'),
    'C12': ('exploration',
            'Hypothesis-drawn operation histories on long-lived parser / code generator / compiler objects with a '
            'differential oracle against fresh instances; cross-process digest comparison over PYTHONHASHSEED values',
            'Each history feeds valid and invalid MIBs (truncations inside MACRO bodies, comments, quoted strings; '
            'token mutants), code generations, repeated generations and compile() calls to the same objects; every '
            'step must equal what brand-new objects produce (tree, error class and line, text, MibInfo, statuses); later '
            'steps present other editions of modules already seen (same module, type and object names, other content), '
            'modules that were absent before, other templates and text filters. '
            'A generated corpus (half of it type-heavy with shuffled forward references) is compiled under 8 (thorough 24) hash seeds in child interpreters and all SHA-256 '
            'digests of trees, JSON and pysnmp texts and module summaries must agree.',
            'Fresh instances are the reference; "all hash seeds" is sampled.', '4/C12'),
    'C20': ('exploration',
            'Hypothesis on-disk worlds + argv for mibdump and mibcopy run as real subprocesses; oracle = exit code / '
            'parsed report / directory diff consistency, model expectations, and order independence over all permutations',
            'mibdump: usage errors exit 64; exit 0 iff nothing is reported missing or failed; report categories are '
            'disjoint and cover the closure; the destination afterwards is exactly the pre-existing files plus the '
            'modules reported created/borrowed (plus index), unchanged under --dry-run / --no-mib-writes. mibcopy: the '
            'destination holds, per module name seen, a copy with the maximal latest revision under the canonical '
            'name, nothing else, and the same bytes for every visiting order of the sources (all permutations of up '
            'to 4 files) when the newest copy is unique.',
            'Runs use explicit local sources/borrowers (defaults are network URLs); ~800 subprocess runs per quick run.',
            '4/C20'),
    'C11': ('exploration',
            'exhaustive prefix enumeration of generated files + Hypothesis token mutants/noise; oracle = exception '
            'type, completeness by the renderer span table, exact line of never-viable tokens; atheris in thorough',
            'Every proper prefix of the generated files is parsed (truncation must be an error unless the cut falls '
            'between modules, then exactly the first k modules come back); token-level mutants and noise may only '
            'yield a module list or PySmiLexerError with a 1-based in-range line; inserted never-viable tokens must '
            'be reported on exactly their line; the same errors must surface as status failed through compile(). '
            'Thorough adds a coverage-guided atheris campaign with the same oracle.',
            'Assumes the renderer span table is right about where modules start/end and which line a token is on; '
            'a 30 s alarm per parse stands for non-termination.', '4/C11'),
}

NOT_APPLICABLE = {
}

PENDING = ['C01', 'C03', 'C04', 'C05', 'C06', 'C07', 'C08', 'C09', 'C10', 'C11', 'C12', 'C13', 'C14', 'C15', 'C16',
           'C17', 'C18', 'C19', 'C20']


def hooks_commits():
    try:
        out = subprocess.check_output(['git', '-C', '/repo', 'log', '--format=%H %s'], text=True)
    except Exception:
        return []
    return [l.split()[0] for l in out.splitlines() if ' hook:' in l or l.split(' ', 1)[1].startswith('hook:')]


def main():
    checks = []
    for pid in sorted(CHECKS):
        level, technique, text, note, ref = CHECKS[pid]
        checks.append({
            'property_id': pid,
            'quick_cmd': '/venv/bin/python run_check.py %s --tier quick' % pid,
            'thorough_cmd': '/venv/bin/python run_check.py %s --tier thorough' % pid,
            'evidence_file': 'evidence/%s.json' % pid,
            'replay_cmd_template': '/venv/bin/python run_check.py %s --replay {path}' % pid,
            'engine': 'hypothesis-runner',
            'level_claimed': {'category': level, 'text': text, 'design_ref': 'DESIGN.md section ' + ref},
            'level_note': note,
            'technique': technique,
        })
    na = [{'property_id': p, 'reason': r} for p, r in sorted(NOT_APPLICABLE.items())]
    for p in PENDING:
        if p not in CHECKS and p not in NOT_APPLICABLE:
            na.append({'property_id': p, 'reason': 'check not built yet in this session (planned: property-based '
                                                   'check per DESIGN.md section 4); not claimed until it runs quietly'})
    man = {
        'version': 1,
        'setup_cmd': 'sh tools/setup.sh',
        'hooks': {
            'guard': 'PYSMI_VERIF',
            'enable': 'no source hooks are needed: every observation point is public API or a module attribute '
                      'patched from the harness; the guard names an environment variable no commit uses',
            'baseline_off_cmd': 'cd /repo && /venv/bin/python -m pytest -ra -q -p no:cacheprovider --timeout=900 '
                                '--continue-on-collection-errors',
            'source_commits': hooks_commits(),
            'add_only': True,
        },
        'engines': [{
            'name': 'hypothesis-runner', 'path': 'run_check.py',
            'serves_properties': sorted(CHECKS),
            'kind_free_text': 'sharded Hypothesis searches (16 forked workers, seed derived from VERIF_SEED), '
                              'exhaustive itertools sweeps of small scopes, explicit oracles, shrink to replay file',
        }],
        'checks': checks,
        'not_applicable': na,
        'notes': 'Known genuine defects are listed in known_findings.json (fixed ones carry the fix: commit).',
    }
    with open(os.path.join(HERE, 'MANIFEST.json'), 'w') as f:
        json.dump(man, f, indent=1)
        f.write('\n')
    try:
        import jsonschema
        jsonschema.validate(man, json.load(open('/root/.vp/MANIFEST.schema.json')))
        print('MANIFEST.json valid,', len(checks), 'checks')
    except ImportError:
        print('MANIFEST.json written (jsonschema not importable here)')


if __name__ == '__main__':
    main()
