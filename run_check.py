#!/venv/bin/python
"""Entry point: run_check.py Cnn [--tier quick|thorough] [--replay FILE] [--shards N]"""
import os
import sys

sys.path.insert(0, os.path.join(os.path.dirname(os.path.abspath(__file__)), 'lib'))
from vlib import core  # noqa: E402

if __name__ == '__main__':
    sys.exit(core.main(sys.argv[1:]))
