"""Runner core: bootstrap, sharded Hypothesis search, evidence, findings, replay.

Every check module under /verif/checks exposes

    ID            'Cnn'
    LEVEL         'exploration' | 'fault_enumeration'
    RULE          text: how cases are generated and what makes one non-trivial
    ASSUMPTIONS   list of strings
    run(ctx)      drives ctx.search()/ctx.sweep() and ctx.probe()
    replay(ctx, data)   re-runs the oracle on a saved case (no Hypothesis)

Exit codes: 0 held, 1 violation (with VIOLATION line), 2 harness error.
"""
import os
import sys
import json
import time
import hashlib
import traceback
import multiprocessing

VERIF = os.path.dirname(os.path.dirname(os.path.dirname(os.path.abspath(__file__))))
# evidence/ and replays/ go under VERIF_OUT when set (used when checks are pointed at a scratch copy of the repo)
OUT = os.environ.get('VERIF_OUT') or VERIF
REPO = os.environ.get('PYSMI_REPO', '/repo')


def bootstrap():
    """Make /repo's working tree the pysmi that is imported, and deps importable."""
    deps = os.path.join(VERIF, '.deps')
    if os.path.isdir(deps) and deps not in sys.path:
        sys.path.append(deps)
    if REPO in sys.path:
        sys.path.remove(REPO)
    sys.path.insert(0, REPO)
    lib = os.path.join(VERIF, 'lib')
    if lib not in sys.path:
        sys.path.insert(1, lib)
    os.environ.setdefault('TZ', 'UTC')
    try:
        time.tzset()
    except AttributeError:
        pass
    import pysmi
    here = os.path.realpath(os.path.dirname(pysmi.__file__))
    want = os.path.realpath(os.path.join(REPO, 'pysmi'))
    if here != want:
        raise HarnessError('pysmi imported from %s, not from %s' % (here, want))


class HarnessError(Exception):
    pass


class Violation(Exception):
    """The property is broken on this case."""

    def __init__(self, facet, detail, case=None, extra=None):
        Exception.__init__(self, '%s: %s' % (facet, detail))
        self.facet = facet
        self.detail = detail
        self.case = case
        self.extra = extra


def digest(obj):
    return hashlib.sha1(json.dumps(obj, sort_keys=True, default=repr).encode('utf-8', 'replace')).hexdigest()[:16]


def jsonable(obj, depth=0):
    if depth > 12:
        return repr(obj)
    if isinstance(obj, (str, int, float, bool)) or obj is None:
        return obj
    if isinstance(obj, bytes):
        return {'__bytes__': obj.hex()}
    if isinstance(obj, dict):
        return dict((str(k), jsonable(v, depth + 1)) for k, v in obj.items())
    if isinstance(obj, (list, tuple)):
        return [jsonable(x, depth + 1) for x in obj]
    if isinstance(obj, (set, frozenset)):
        return sorted((jsonable(x, depth + 1) for x in obj), key=repr)
    return repr(obj)


class Recorder(object):
    """Per-shard collector handed to property bodies."""

    MAX_SAMPLES = 4

    def __init__(self, findings=None):
        self.evaluations = 0
        self.counters = {}
        self.nontrivial = set()
        self.samples = []
        self.known_hits = {}
        self.excluded = {}
        self.findings = findings or {}

    def count(self, name, n=1):
        self.counters[name] = self.counters.get(name, 0) + n

    def evaluated(self, n=1):
        self.evaluations += n

    def mark_nontrivial(self, key):
        self.nontrivial.add(key if isinstance(key, str) and len(key) == 16 else digest(key))

    def sample(self, obj, force=False):
        if force or len(self.samples) < self.MAX_SAMPLES:
            self.samples.append(jsonable(obj))

    def excluded_by_construction(self, finding_id, n=1):
        self.excluded[finding_id] = self.excluded.get(finding_id, 0) + n

    def is_known(self, finding_id):
        f = self.findings.get(finding_id)
        return bool(f and f.get('state') == 'known')

    def known(self, finding_id, detail=''):
        """Record a mismatch that is attributed to a listed, still-open finding."""
        self.known_hits[finding_id] = self.known_hits.get(finding_id, 0) + 1

    def dump(self):
        return {'evaluations': self.evaluations, 'counters': self.counters,
                'nontrivial': sorted(self.nontrivial), 'samples': self.samples,
                'known_hits': self.known_hits, 'excluded': self.excluded}


def load_findings(prop_id=None):
    # the override exists for scratch experiments (tools/); registered commands never set it
    path = os.environ.get('VERIF_KNOWN_FINDINGS') or os.path.join(VERIF, 'known_findings.json')
    try:
        with open(path) as f:
            data = json.load(f)
    except IOError:
        return {}
    out = {}
    for ent in data.get('findings', []):
        props = ent.get('properties') or [ent.get('property')]
        if prop_id is None or prop_id in props:
            out[ent['id']] = ent
    return out


_REGISTRY = {}


def _shard_entry(args):
    (key, shard, nshards, seed, tier, findings, extra) = args
    fn = _REGISTRY[key]
    rec = Recorder(findings)
    t0 = time.time()
    out = {'shard': shard, 'failure': None, 'error': None}
    try:
        fail = fn(rec, shard, nshards, seed, tier, extra)
        out['failure'] = fail
    except Violation as v:
        out['failure'] = {'facet': v.facet, 'detail': v.detail, 'case': jsonable(v.case), 'extra': jsonable(v.extra)}
    except BaseException:
        out['error'] = traceback.format_exc()
    out['rec'] = rec.dump()
    out['wall'] = time.time() - t0
    return out


class _StopShrinking(BaseException):
    pass


class CaseTimeout(BaseException):
    """One generated case did not return in time. Not a violation (termination is claimed by C08 / C11 only, which
    have their own bounds): the run ends as a harness error instead of hanging for ever."""


class _case_watchdog(object):
    def __enter__(self):
        import signal
        self.limit = int(os.environ.get('VERIF_CASE_TIMEOUT') or 600)
        try:
            self.old = signal.signal(signal.SIGALRM, self._fire)
            self.prev = signal.alarm(self.limit)
        except ValueError:      # not in the main thread
            self.old = None
        return self

    def _fire(self, signum, frame):
        raise CaseTimeout('a generated case did not return within %d s' % self.limit)

    def __exit__(self, *a):
        import signal
        if self.old is not None:
            signal.alarm(0)
            signal.signal(signal.SIGALRM, self.old)
        return False


def run_hypothesis(prop, strategy, max_examples, seed, rec, shrink=True, stateful=False):
    """Run one Hypothesis search in this process.

    `prop(case, rec)` raises Violation on failure. Returns a failure dict for the
    shrunk case or None. Health-check failures and other exceptions propagate
    (harness error).
    """
    import hypothesis
    from hypothesis import settings, HealthCheck, Phase, given

    phases = [Phase.explicit, Phase.generate, Phase.target]
    if shrink:
        phases.append(Phase.shrink)
    st = settings(max_examples=max_examples, database=None, deadline=None, derandomize=False,
                  report_multiple_bugs=False, print_blob=False, phases=phases,
                  suppress_health_check=[HealthCheck.too_slow, HealthCheck.data_too_large,
                                         HealthCheck.large_base_example, HealthCheck.filter_too_much])
    last = {}
    state = {'t_first': None, 'cache': {}}
    budget = float(os.environ.get('VERIF_SHRINK_S') or 90)

    @hypothesis.seed(seed)
    @st
    @given(strategy)
    def test(case):
        # Shrinking is capped: `budget` seconds after the first failure further candidates are
        # answered from the cache of cases already seen to fail (so the final replay still fails)
        # and everything else passes without being run.
        if state['t_first'] is not None and time.time() - state['t_first'] > budget:
            # not an Exception: Hypothesis lets it through, which ends the search at once with the best case so far
            # (answering the remaining candidates from a cache still costs their generation - minutes for histories)
            raise _StopShrinking()
        try:
            with _case_watchdog():
                prop(case, rec)
        except Violation as v:
            if v.case is None:
                v.case = case
            # drop the exception chain: Hypothesis keys failures by it and temp paths in it look "flaky"
            v.__cause__ = None
            v.__context__ = None
            last['v'] = v
            if state['t_first'] is None:
                state['t_first'] = time.time()
            state['cache'][digest(case)] = v
            raise

    try:
        test()
    except (Violation, _StopShrinking):
        v = last['v']
        return {'facet': v.facet, 'detail': v.detail, 'case': jsonable(v.case), 'extra': jsonable(v.extra)}
    except hypothesis.errors.Flaky:
        # the same generated input violated the property once and not when Hypothesis ran it again: the harness is
        # deterministic (no clock, no RNG, fresh directories), so the code under test kept state between cases
        v = last.get('v')
        if v is None:
            raise
        return {'facet': v.facet, 'detail': v.detail + ' [outcome depended on the cases executed before it: not reproduced '
                'when the same input was run again in this process]', 'case': jsonable(v.case), 'extra': jsonable(v.extra)}
    return None


class Context(object):
    def __init__(self, check, tier, seed, shards):
        self.check = check
        self.id = check.ID
        self.tier = tier
        self.seed = seed
        self.shards = shards
        self.findings = load_findings(self.id)
        self.evaluations = 0
        self.counters = {}
        self.nontrivial = set()
        self.samples = []
        self.known_hits = {}
        self.excluded = {}
        self.failures = []
        self.known_lines = []
        self.exhaustive = None
        self.extra_cov = {}
        self.t0 = time.time()
        self.notes = []

    quick = property(lambda self: self.tier == 'quick')

    def pick(self, quick, thorough):
        # thorough budgets are capped at 12x the quick ones (measured: keeps every thorough run within ~5-20 min)
        return quick if self.tier == 'quick' else min(thorough, quick * 12)

    # -- running ---------------------------------------------------------

    def _merge(self, results, label):
        for r in results:
            if r['error']:
                raise HarnessError('shard %s of %s failed:\n%s' % (r['shard'], label, r['error']))
            rec = r['rec']
            self.evaluations += rec['evaluations']
            for k, v in rec['counters'].items():
                k = '%s.%s' % (label, k) if label else k
                self.counters[k] = self.counters.get(k, 0) + v
            self.nontrivial.update(rec['nontrivial'])
            for s in rec['samples']:
                if len([x for x in self.samples if x.get('facet') == label]) < 3:
                    self.samples.append({'facet': label, 'case': s})
            for k, v in rec['known_hits'].items():
                self.known_hits[k] = self.known_hits.get(k, 0) + v
            for k, v in rec['excluded'].items():
                self.excluded[k] = self.excluded.get(k, 0) + v
            if r['failure']:
                f = dict(r['failure'])
                f['search'] = label
                self.failures.append(f)

    def parallel(self, label, fn, extra=None, shards=None):
        """Run fn(rec, shard, nshards, seed, tier, extra) in `shards` forked processes."""
        n = shards or self.shards
        _REGISTRY[label] = fn
        args = [(label, i, n, self.seed, self.tier, self.findings, extra) for i in range(n)]
        if n == 1:
            results = [_shard_entry(args[0])]
        else:
            ctxm = multiprocessing.get_context('fork')
            with ctxm.Pool(n) as pool:
                results = pool.map(_shard_entry, args, chunksize=1)
        self._merge(results, label)
        self.counters.setdefault('%s.shards' % label, n)

    def search(self, label, strategy, prop, examples, shards=None, shrink=True):
        """Sharded Hypothesis search; `examples` is the total budget."""
        n = shards or self.shards
        per = max(1, examples // n)

        def fn(rec, shard, nshards, seed, tier, extra):
            return run_hypothesis(prop, strategy() if callable(strategy) else strategy, per,
                                  seed * 1000 + shard * 7 + _label_salt(label), rec, shrink=shrink)

        self.parallel(label, fn, shards=n)

    def sweep(self, label, items, prop, chunk=None):
        """Exhaustive ordered sweep of `items` (a list) split over the shards."""
        items = list(items)

        def fn(rec, shard, nshards, seed, tier, extra):
            for i in range(shard, len(items), nshards):
                prop(items[i], rec)
            return None

        self.parallel(label, fn)

    def inline(self, label, fn):
        """Run fn(rec) in this process (cheap deterministic parts: probes, replays)."""
        rec = Recorder(self.findings)
        r = {'shard': 0, 'failure': None, 'error': None}
        try:
            fn(rec)
        except Violation as v:
            r['failure'] = {'facet': v.facet, 'detail': v.detail, 'case': jsonable(v.case), 'extra': jsonable(v.extra)}
        except Exception:
            r['error'] = traceback.format_exc()
        r['rec'] = rec.dump()
        self._merge([r], label)

    # -- findings --------------------------------------------------------

    def is_known(self, fid):
        f = self.findings.get(fid)
        return bool(f and f.get('state') == 'known')

    def probe(self, fid, still_fails, what=None):
        """Report a listed finding. `still_fails` is a bool measured by the check's probe."""
        f = self.findings.get(fid)
        if not f:
            return
        if f.get('state') == 'known':
            if still_fails:
                self.known_lines.append('KNOWN-FINDING: property=%s %s [%s]' % (self.id, what or f['what'], fid))
            else:
                self.notes.append('finding %s is listed as known but its reproducer now passes' % fid)
        elif f.get('state') == 'fixed' and still_fails:
            self.failures.append({'facet': 'regression-of-%s' % fid, 'detail': what or f['what'],
                                  'case': f.get('reproducer'), 'extra': None, 'search': 'probe'})

    # -- finishing -------------------------------------------------------

    def finish(self):
        wall = time.time() - self.t0
        cov = {
            'evaluations': int(self.evaluations),
            'distinct_nontrivial': len(self.nontrivial),
            'rule': self.check.RULE,
            'samples': self.samples[:12] or [],
            'classes': dict(sorted(self.counters.items())),
            'excluded_by_construction': self.excluded,
            'known_finding_hits': self.known_hits,
            'known_findings_reported': self.known_lines,
            'notes': self.notes,
        }
        if self.exhaustive is not None:
            cov['exhaustive'] = bool(self.exhaustive)
        cov.update(self.extra_cov)
        ev = {
            'property_id': self.id, 'tier': self.tier, 'seed': self.seed,
            'level': self.check.LEVEL, 'coverage': cov,
            'assumptions': list(self.check.ASSUMPTIONS), 'wall_s': round(wall, 2),
            'violations': len(self.failures),
        }
        evdir = os.path.join(OUT, 'evidence')
        os.makedirs(evdir, exist_ok=True)
        with open(os.path.join(evdir, '%s.json' % self.id), 'w') as f:
            json.dump(ev, f, indent=1, sort_keys=True)
            f.write('\n')
        for line in self.known_lines:
            print(line)
        print('%s tier=%s seed=%s evaluations=%d distinct_nontrivial=%d wall=%.1fs' % (
            self.id, self.tier, self.seed, self.evaluations, len(self.nontrivial), wall))
        if self.failures:
            rdir = os.path.join(OUT, 'replays', self.id)
            os.makedirs(rdir, exist_ok=True)
            seen = set()
            for f in self.failures:
                key = digest([f['facet'], f['case']])
                if key in seen:
                    continue
                seen.add(key)
                name = 'violation-%s-%s.json' % (_slug(f['facet']), key)
                path = os.path.join(rdir, name)
                with open(path, 'w') as fh:
                    json.dump({'property': self.id, 'facet': f['facet'], 'detail': f['detail'],
                               'search': f.get('search'), 'seed': self.seed, 'tier': self.tier,
                               'case': f['case'], 'extra': f.get('extra')}, fh, indent=1, default=repr)
                    fh.write('\n')
                print('  %s: %s' % (f['facet'], str(f['detail'])[:600]))
                print('VIOLATION property=%s replay=%s' % (self.id, os.path.relpath(path, OUT)))
            return 1
        if len(self.nontrivial) < 2 or self.evaluations < 1:
            raise HarnessError('check explored too little: evaluations=%d nontrivial=%d' % (
                self.evaluations, len(self.nontrivial)))
        return 0


def _slug(s):
    return ''.join(c if c.isalnum() else '-' for c in str(s))[:40]


def _label_salt(label):
    return int(hashlib.sha1(label.encode()).hexdigest()[:6], 16) % 100000


def main(argv):
    import argparse
    import importlib
    ap = argparse.ArgumentParser()
    ap.add_argument('check')
    ap.add_argument('--tier', default=os.environ.get('VERIF_TIER') or 'quick', choices=['quick', 'thorough'])
    ap.add_argument('--replay')
    ap.add_argument('--shards', type=int, default=int(os.environ.get('VERIF_SHARDS') or 16))
    ap.add_argument('--seed', type=int, default=None)
    a = ap.parse_args(argv)
    try:
        seed = a.seed if a.seed is not None else int(os.environ.get('VERIF_SEED') or 1)
    except ValueError:
        seed = 1
    try:
        bootstrap()
        sys.path.insert(1, VERIF)
        mod = importlib.import_module('checks.%s' % a.check.lower())
        ctx = Context(mod, a.tier, seed, a.shards)
        if a.replay:
            with open(a.replay if os.path.isabs(a.replay) else os.path.join(VERIF, a.replay)) as f:
                data = json.load(f)
            try:
                mod.replay(ctx, data)
            except Violation as v:
                print('  %s: %s' % (v.facet, str(v.detail)[:600]))
                print('VIOLATION property=%s replay=%s' % (mod.ID, a.replay))
                return 1
            print('%s replay %s: property holds on this case' % (mod.ID, a.replay))
            return 0
        # committed replays (reproducers of repaired findings) first: a seconds-long regression tier
        rdir = os.path.join(VERIF, 'replays', mod.ID)
        if os.path.isdir(rdir):
            for fn in sorted(os.listdir(rdir)):
                if not (fn.startswith('finding-') and fn.endswith('.json')):
                    continue
                with open(os.path.join(rdir, fn)) as f:
                    data = json.load(f)
                try:
                    mod.replay(ctx, data)
                    ctx.evaluations += 1
                    ctx.counters['committed-replays'] = ctx.counters.get('committed-replays', 0) + 1
                except Violation as v:
                    ctx.failures.append({'facet': 'regression:' + str(v.facet), 'detail': '%s: %s' % (fn, v.detail),
                                         'case': data.get('case'), 'extra': None, 'search': data.get('search')})
        mod.run(ctx)
        return ctx.finish()
    except HarnessError as e:
        sys.stderr.write('HARNESS-ERROR %s\n' % e)
        return 2
    except Exception:
        sys.stderr.write('HARNESS-ERROR\n%s\n' % traceback.format_exc())
        return 2
