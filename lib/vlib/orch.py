"""Orchestration harness for MibCompiler.compile(): scripted doubles, scenarios, call log.

A scenario is a JSON-able dict; `run(scenario)` builds a MibCompiler with a real parser, scripted readers,
searchers, borrowers (real AbstractBorrower subclasses over scripted readers), a scripted or real code generator
and a scripted writer, calls compile() once and returns an Outcome holding the result, the ordered call log and
the exception objects that were injected.  The import graph is carried by tiny *real* MIB texts.
"""
import hashlib
import json

from hypothesis import strategies as st

BASE = ('SNMPv2-SMI', 'SNMPv2-TC', 'SNMPv2-CONF')
USER = ('MA-MIB', 'MB-MIB', 'MC-MIB', 'MD-MIB', 'ME-MIB', 'MF-MIB')
STATUSES = ('compiled', 'untouched', 'failed', 'unprocessed', 'missing', 'borrowed')
TEXT_OUTCOMES = ('good', 'lex', 'syntax', 'trunc', 'semantic', 'semantic2', 'empty', 'comment')
BAD_TEXT = ('lex', 'syntax', 'trunc', 'semantic', 'semantic2')
V1_BASE_IMPORT = {'RFC-1212': 'OBJECT-TYPE', 'RFC1155-SMI': 'enterprises', 'RFC-1215': 'TRAP-TYPE'}
NO_MODULE = ('empty', 'comment')


def node_name(mod):
    return 'n' + mod.replace('-', '').lower()


def mib_text(mod, imports, outcome='good', variant=0, extra_modules=()):
    """Real MIB text of `mod` importing `imports`, optionally defective."""
    if outcome == 'empty':
        return ''
    if outcome == 'comment':
        return '-- nothing here\n\n'
    lines = ['%s DEFINITIONS ::= BEGIN' % mod]
    if imports:
        lines.append('IMPORTS ' + ' '.join('%s FROM %s' % (V1_BASE_IMPORT.get(i, node_name(i) + 'x'), i) for i in imports) + ';')
    k = (abs(hash_int(mod)) % 1000) + 1
    lines.append('%s OBJECT IDENTIFIER ::= { 1 3 %d %d }' % (node_name(mod), k, variant))
    lexkind = ((1, 0, 2, 1, 0, 2)[USER.index(mod)] if mod in USER else hash_int(mod) % 3) if outcome == 'lex' else None
    if lexkind == 0:
        lines.append('bad1 OBJECT IDENTIFIER ::= { 1 $ 3 }')
    elif outcome == 'syntax':
        lines.append('bad2 OBJECT IDENTIFIER { 1 3 }')
    elif outcome == 'semantic':
        lines.append('%s OBJECT IDENTIFIER ::= { 1 3 %d 99 }' % (node_name(mod), k))
    elif outcome == 'semantic2':
        lines.append('Orphan%s ::= NoSuchParentTypeAnywhere' % node_name(mod))
    if outcome != 'trunc':
        lines.append('END')
    text = '\n'.join(lines) + '\n'
    if lexkind == 1:
        text += '\n\x0c\n'         # a form feed after END (as in texts cut out of RFCs): an illegal character, nothing after it
    elif lexkind == 2:
        text = text.replace('::= {', '::= \xa0{', 1)
    for ent in extra_modules:
        name, imps = ent[0], ent[1]
        text += mib_text(name, imps, ent[2] if len(ent) > 2 else 'good', variant)
    return text


def hash_int(s):
    return int(hashlib.sha1(s.encode()).hexdigest()[:8], 16)


def file_mtime(sc, kind, idx, name):
    """Every file a reader or borrower serves has a time stamp of its own (scenario key 'mtimes' overrides it)."""
    return sc.get('mtimes', {}).get(name, 1000 + (hash_int('%s/%s/%s' % (kind, idx, name)) % 5000))


class Outcome(object):
    def __init__(self):
        self.result = None
        self.exception = None
        self.log = []
        self.injected = {}      # (stage, index, name) -> exception object
        self.gen_text = {}      # module -> text returned by the code generator
        self.borrow_text = {}   # (index, module) -> text a borrower returned
        self.parsed = []        # (text, [module names]) per parser call, or (text, exception)

    def calls(self, kind):
        return [e for e in self.log if e[0] == kind]


def run(sc, budget=None):
    from pysmi.compiler import MibCompiler
    from pysmi.reader.base import AbstractReader
    from pysmi.searcher.base import AbstractSearcher
    from pysmi.searcher.stub import StubSearcher
    from pysmi.borrower.anyfile import AnyFileBorrower
    from pysmi.writer.base import AbstractWriter
    from pysmi.codegen.base import AbstractCodeGen
    from pysmi.mibinfo import MibInfo
    from pysmi import error
    from vlib import pipeline

    out = Outcome()
    log = out.log
    limit = budget or (400 * (len(sc['universe']) + 3))
    # MibInfo.path is a display label with no meaning for compile(): a third of the scenarios (a function of the scenario, so
    # that replays agree) use readers which, like the package's CallbackReader, report one constant path for every module
    const_path = sc.get('const_path', hash_int(json.dumps(sc, sort_keys=True, default=str)) % 3 == 0)

    class Runaway(BaseException):
        pass

    def tick():
        if len(log) > limit:
            raise Runaway()

    def imports_of(mod):
        return sc['imports'].get(mod, [])

    class Reader(AbstractReader):
        def __init__(self, idx, table, kind='read'):
            self.idx = idx
            self.table = table
            self.kind = kind

        def __str__(self):
            return '%s#%d' % (self.kind, self.idx)

        def getData(self, name, **options):
            log.append((self.kind, self.idx, name, dict(options)))
            tick()
            oc = self.table.get(name, 'absent')
            if oc == 'absent':
                raise error.PySmiReaderFileNotFoundError('no %s' % name, reader=self)
            if oc == 'readerr':
                exc = error.PySmiReaderError('reader %d broke on %s' % (self.idx, name), reader=self)
                out.injected[(self.kind, self.idx, name)] = exc
                raise exc
            info = MibInfo(path='file:///dev/stdin' if const_path and self.kind == 'read' else '%s%d://%s' % (self.kind, self.idx, name),
                           file=name + '.txt', name=name,
                           mtime=file_mtime(sc, self.kind, self.idx, name))
            if self.kind == 'borrow':
                text = 'BORROWED<%s>#%d' % (name, self.idx)
                out.borrow_text[(self.idx, name)] = text
                return info, text
            if isinstance(oc, list):     # ['file', canonical module, outcome, [extra modules], outcome of the extras]
                canon, toc, extras = oc[1], oc[2], oc[3]
                xoc = oc[4] if len(oc) > 4 else 'good'
                text = mib_text(canon, imports_of(canon), toc, self.idx, [(e, imports_of(e), xoc) for e in extras])
            else:
                text = mib_text(name, imports_of(name), oc, self.idx)
            return info, text

    class Searcher(AbstractSearcher):
        def __init__(self, idx, table, honour_rebuild):
            self.idx = idx
            self.table = table
            self.honour = honour_rebuild

        def __str__(self):
            return 'search#%d' % self.idx

        def fileExists(self, mibname, mtime, rebuild=False):
            log.append(('search', self.idx, mibname, mtime, bool(rebuild)))
            tick()
            if rebuild and self.honour:
                return
            ans = self.table.get(mibname, 'absent')
            if ans == 'fresh':
                raise error.PySmiFileNotModifiedError('fresh %s' % mibname, searcher=self)
            if ans == 'error':
                exc = error.PySmiSearcherError('searcher %d broke on %s' % (self.idx, mibname), searcher=self)
                out.injected[('search', self.idx, mibname)] = exc
                raise exc
            if ans == 'plain':
                return
            raise error.PySmiFileNotFoundError('no %s' % mibname, searcher=self)

    class Writer(AbstractWriter):
        def __str__(self):
            return 'writer'

        def putData(self, mibname, data, comments=(), dryRun=False):
            oc = sc['writer'].get(mibname, 'ok')
            log.append(('put', mibname, data, bool(dryRun), oc))
            tick()
            if oc == 'fail':
                exc = error.PySmiWriterError('writer broke on %s' % mibname, writer=self)
                out.injected[('put', 0, mibname)] = exc
                raise exc

        def getData(self, filename):
            return ''

    class CodeGen(AbstractCodeGen):
        def __str__(self):
            return 'codegen'

        def genCode(self, ast, symbolTable, **kwargs):
            name = ast[0]
            log.append(('gen', name, dict((k, kwargs.get(k)) for k in ('genTexts', 'dstTemplate'))))
            tick()
            if sc['codegen'].get(name, 'ok') == 'fail':
                exc = error.PySmiCodegenError('codegen broke on %s' % name)
                out.injected[('gen', 0, name)] = exc
                log.append(('gen-raised', name))
                raise exc
            text = 'TEXT<%s>%s' % (name, hashlib.sha1(repr(ast).encode()).hexdigest()[:10])
            out.gen_text[name] = text
            log.append(('gen-returned', name))
            imported = tuple(sorted((ast[2] or {}).keys()))
            return MibInfo(name=name, identity='1.3.%d' % (hash_int(name) % 1000), oids=set(), revision=None,
                           enterprise=None, compliance=[], imported=imported), text

        def genIndex(self, mibsMap, **kwargs):
            return ''

    class RealGen(object):
        """Wraps JsonCodeGen to record what it produced."""

        def __init__(self):
            from pysmi.codegen.jsondoc import JsonCodeGen
            self.real = JsonCodeGen()

        def __str__(self):
            return 'realgen'

        def genCode(self, ast, symbolTable, **kwargs):
            name = ast[0]
            log.append(('gen', name, dict((k, kwargs.get(k)) for k in ('genTexts', 'dstTemplate'))))
            tick()
            if sc['codegen'].get(name, 'ok') == 'fail':
                exc = error.PySmiCodegenError('codegen broke on %s' % name)
                out.injected[('gen', 0, name)] = exc
                log.append(('gen-raised', name))
                raise exc
            try:
                info, text = self.real.genCode(ast, symbolTable, **kwargs)
            except error.PySmiError:
                log.append(('gen-raised', name))
                raise
            out.gen_text[name] = text
            log.append(('gen-returned', name))
            return info, text

    class WrapParser(object):
        def __init__(self):
            self.real = pipeline.parser('smiV1Relaxed')

        def parse(self, data, **kw):
            tick()
            try:
                trees = self.real.parse(data, **kw)
            except error.PySmiError as e:
                out.parsed.append((data, e))
                log.append(('parse', None))
                raise
            out.parsed.append((data, [t[0] for t in trees]))
            log.append(('parse', tuple(t[0] for t in trees)))
            return trees

        def reset(self):
            self.real.reset()

    pipeline.install_jinja_cache()
    codegen = RealGen() if sc.get('realgen') else CodeGen()
    comp = MibCompiler(WrapParser(), codegen, Writer())
    comp.addSources(*[Reader(i, t) for i, t in enumerate(sc['sources'])])
    searchers = []
    for i, s in enumerate(sc['searchers']):
        if s.get('stub') is not None:
            searchers.append(StubSearcher(*s['stub']))
        else:
            searchers.append(Searcher(i, s['answers'], s.get('honour_rebuild', True)))
    comp.addSearchers(*searchers)
    borrowers = []
    for i, b in enumerate(sc['borrowers']):
        borrowers.append(AnyFileBorrower(Reader(i, b['holds'], 'borrow'), genTexts=b['genTexts']))
    comp.addBorrowers(*borrowers)
    opts = dict((k, v) for k, v in sc['options'].items() if v is not None)
    # earlier calls on the same compiler object: what a call does depends on its own arguments only, so every
    # invariant is judged on the last call as if the compiler were new
    for w in sc.get('warmup') or []:
        try:
            comp.compile(*w['requested'], **dict((k, v) for k, v in w['options'].items() if v is not None))
        except BaseException:   # noqa
            pass
        del log[:]
        out.injected.clear()
        out.gen_text.clear()
        out.borrow_text.clear()
        del out.parsed[:]
    try:
        out.result = comp.compile(*sc['requested'], **opts)
    except Runaway:
        out.exception = 'runaway'
    except BaseException as e:   # noqa
        out.exception = e
    return out


# ---------------------------------------------------------------------------
# scenario strategies


@st.composite
def scenarios(draw, max_user=4, max_sources=3, failures=True, searchers=True, borrowers=True, aliases=True,
              base_variation=True, realgen=True, multi_file=True, options=None, bad_extra=False, histories=True):
    n = draw(st.integers(1, max_user))
    user = list(USER[:n])
    universe = user + list(BASE)
    imports = {}
    for m in user:
        others = draw(st.lists(st.sampled_from(user + ['MZ-MIB'] if failures else user), max_size=3, unique=True))
        imports[m] = others
    for b in BASE:
        imports[b] = []
    v1base = []
    if draw(st.integers(0, 3)) == 0:
        v1base = draw(st.lists(st.sampled_from(sorted(V1_BASE_IMPORT)), min_size=1, max_size=2, unique=True))
        for vb in v1base:
            imports[vb] = []
            importer = draw(st.sampled_from(user))
            imports[importer] = imports[importer] + [vb]
        universe = universe + v1base
    nsrc = draw(st.integers(1, max_sources))
    sources = [dict() for i in range(nsrc)]
    good_w = ('good', 'good', 'good', 'good', 'absent', 'absent')
    bad_w = ('readerr', 'lex', 'syntax', 'trunc', 'semantic', 'empty', 'comment')
    for m in universe:
        placed = False
        for i in range(nsrc):
            pool = good_w + (bad_w if failures and (m in user or base_variation) else ())
            oc = draw(st.sampled_from(pool))
            if m in BASE and not base_variation:
                oc = 'good' if i == 0 else 'absent'
            sources[i][m] = oc
            placed = placed or oc == 'good'
        if not placed and not (failures and draw(st.integers(0, 3)) == 0):
            sources[draw(st.integers(0, nsrc - 1))][m] = 'good'
    requested = draw(st.lists(st.sampled_from(user), min_size=1, max_size=n, unique=True))
    # alias: a requested file name that differs from the module it holds (+ optional second module in the file)
    if aliases and draw(st.integers(0, 3)) == 0:
        target = draw(st.sampled_from(user))
        alias = 'Z' + target.replace('-MIB', '') + 'FILE'
        extras = []
        if multi_file and n > 1 and draw(st.booleans()):
            extras = [x for x in user if x != target][:1]
        i = draw(st.integers(0, nsrc - 1))
        sources[i][alias] = ['file', target, draw(st.sampled_from(('good', 'good', 'good') + (BAD_TEXT if failures else ()))), extras]
        if draw(st.booleans()):
            requested = [alias if r == target else r for r in requested]
        if alias not in requested:
            requested.append(alias)
        universe.append(alias)
        # a module may also IMPORT from the file name (incl. the module that lives in that file)
        if draw(st.integers(0, 2)) == 0:
            importer = draw(st.sampled_from(user))
            if alias not in imports[importer]:
                imports[importer] = imports[importer] + [alias]
    # a file named like its (good) first module that also holds a second module, possibly a broken one
    if multi_file and n > 1 and draw(st.integers(0, 4)) == 0:
        first = draw(st.sampled_from(user))
        second = [x for x in user if x != first][0]
        i = draw(st.integers(0, nsrc - 1))
        if sources[i].get(first) == 'good':
            sources[i][first] = ['file', first, 'good', [second],
                                 draw(st.sampled_from(('good', 'semantic', 'semantic2') if (failures and bad_extra) else ('good',)))]
    codegen = {}
    writer = {}
    for m in universe:
        if failures and draw(st.integers(0, 7)) == 0:
            codegen[m] = 'fail'
        if failures and draw(st.integers(0, 9)) == 0:
            writer[m] = 'fail'
    srch = []
    if searchers:
        for i in range(draw(st.integers(0, 3))):
            if draw(st.integers(0, 3)) == 0:
                srch.append({'stub': draw(st.lists(st.sampled_from(universe), max_size=3, unique=True))})
            else:
                ans = {}
                for m in universe:
                    r = draw(st.sampled_from(('absent', 'absent', 'absent', 'fresh', 'plain', 'error')))
                    if r != 'absent':
                        ans[m] = r
                srch.append({'answers': ans, 'honour_rebuild': draw(st.booleans())})
    tail_bad = any(isinstance(v, list) and len(v) > 4 and v[4] != 'good' for src in sources for v in src.values())
    borr = []
    if borrowers and not tail_bad:
        for i in range(draw(st.integers(0, 3))):
            holds = {}
            for m in universe + ['MZ-MIB']:
                r = draw(st.sampled_from(('absent', 'absent', 'text', 'text', 'readerr')))
                if r != 'absent':
                    holds[m] = r
            borr.append({'genTexts': draw(st.booleans()), 'holds': holds})
    opts = options or {}
    o = {}
    for k in ('noDeps', 'rebuild', 'dryRun', 'genTexts', 'ignoreErrors'):
        o[k] = opts[k] if k in opts else draw(st.sampled_from((None, False, True)))
    o['writeMibs'] = opts['writeMibs'] if 'writeMibs' in opts else draw(st.sampled_from((None, True, True, False)))
    sc = {'universe': universe, 'user': user, 'imports': imports, 'sources': sources, 'requested': requested,
          'codegen': codegen, 'writer': writer, 'searchers': srch, 'borrowers': borr, 'options': o,
          'realgen': bool(realgen and draw(st.integers(0, 4)) == 0)}
    if histories and draw(st.integers(0, 3)) == 0:
        warm = []
        for i in range(draw(st.integers(1, 2))):
            wo = {}
            for k in ('noDeps', 'rebuild', 'dryRun', 'genTexts', 'ignoreErrors', 'writeMibs'):
                wo[k] = draw(st.sampled_from((None, False, True)))
            warm.append({'requested': draw(st.lists(st.sampled_from(user + ['MZ-MIB']), min_size=1, max_size=3, unique=True)),
                         'options': wo})
        sc['warmup'] = warm
    return sc


# ---------------------------------------------------------------------------
# a small independent model: what the statements quantify over


def source_view(sc, name):
    """Per source, what it holds for a requested/imported name: list of (outcome, canonical, usable extra modules)."""
    out = []
    for s in sc['sources']:
        oc = s.get(name, 'absent')
        if isinstance(oc, list):
            extras = list(oc[3])
            if len(oc) > 4 and oc[4] != 'good':
                extras = []      # the later module of the file is broken: only the modules before it are usable
            out.append((oc[2], oc[1], extras))
        else:
            out.append((oc, name, []))
    return out


def tail_failures(sc):
    """File names whose first module is good but whose later module fails (the file lookup is recorded failed)."""
    out = set()
    for s in sc['sources']:
        for k, v in s.items():
            if isinstance(v, list) and len(v) > 4 and v[4] != 'good' and v[2] == 'good' and v[3]:
                out.add(k)
    return out


def supplier(sc, name):
    """Index of the first source whose copy of `name` is a usable text; all earlier ones are absent or failing.
    Returns (index, canonical module, extra modules) or (None, ...)."""
    for i, (oc, canon, extras) in enumerate(source_view(sc, name)):
        if oc == 'good':
            return i, canon, extras
    return None, None, []


def closure(sc):
    """Names compile() must account for: the work list the statement describes - requested names first, then every
    module named in IMPORTS (plus the three implicit base imports, in sorted order) of each module obtained; a
    name is looked up once and a module already obtained (possibly from a file of another name) is not fetched again."""
    keys = set()
    supplied = {}
    todo = list(sc['requested'])
    looked = set()
    while todo:
        name = todo.pop(0)
        if name in looked:
            continue
        looked.add(name)
        if name in supplied:
            continue
        i, canon, extras = supplier(sc, name)
        if i is None:
            keys.add(name)
            continue
        for m in [canon] + extras:
            keys.add(m)
            supplied[m] = i
            todo.extend(sorted(set(list(sc['imports'].get(m, [])) + list(BASE))))
    return keys, supplied


# ---------------------------------------------------------------------------
# exhaustive small scope: every scenario over two user modules, two sources and a fixed option lattice


SMALL_GRAPHS = (
    {'MA-MIB': [], 'MB-MIB': []},
    {'MA-MIB': ['MB-MIB'], 'MB-MIB': []},
    {'MA-MIB': ['MB-MIB'], 'MB-MIB': ['MA-MIB']},          # cycle
    {'MA-MIB': ['MA-MIB', 'MB-MIB'], 'MB-MIB': []},        # self import
    {'MA-MIB': ['MB-MIB', 'MZ-MIB'], 'MB-MIB': []},        # a dependency nobody holds
)
SMALL_OUTCOMES = ('absent', 'good', 'lex', 'readerr', 'semantic')
SMALL_DIMS = (
    ('graph', range(len(SMALL_GRAPHS))),
    ('a0', SMALL_OUTCOMES), ('a1', SMALL_OUTCOMES), ('b0', SMALL_OUTCOMES), ('b1', SMALL_OUTCOMES),
    ('requested', (('MA-MIB',), ('MA-MIB', 'MB-MIB'))),
    ('codegen', (None, 'MA-MIB', 'MB-MIB')),
    ('writer', (None, 'MA-MIB')),
    ('borrower', (None, 'match', 'mismatch')),
    ('ignoreErrors', (None, True)),
    ('noDeps', (None, True)),
    ('searcher', (None, 'fresh-MB')),
)


def small_scope_size():
    n = 1
    for name, vals in SMALL_DIMS:
        n *= len(vals)
    return n


def small_scenario(index):
    """The index-th scenario of the small scope (mixed-radix decoding of SMALL_DIMS)."""
    pick = {}
    for name, vals in SMALL_DIMS:
        vals = list(vals)
        pick[name] = vals[index % len(vals)]
        index //= len(vals)
    user = ['MA-MIB', 'MB-MIB']
    imports = dict((k, list(v)) for k, v in SMALL_GRAPHS[pick['graph']].items())
    for b in BASE:
        imports[b] = []
    s0 = {'MA-MIB': pick['a0'], 'MB-MIB': pick['b0']}
    s1 = {'MA-MIB': pick['a1'], 'MB-MIB': pick['b1']}
    for b in BASE:
        s0[b] = 'good'
    borr = []
    if pick['borrower']:
        holds = {'MA-MIB': 'text', 'MB-MIB': 'text', 'MZ-MIB': 'text'}
        # the request asks for no texts (genTexts None): a with-texts borrower does not match it
        borr = [{'genTexts': pick['borrower'] == 'mismatch', 'holds': holds}]
    srch = []
    if pick['searcher']:
        srch = [{'answers': {'MB-MIB': 'fresh'}, 'honour_rebuild': True}]
    return {'universe': user + list(BASE), 'user': user, 'imports': imports, 'sources': [s0, s1],
            'requested': list(pick['requested']),
            'codegen': {pick['codegen']: 'fail'} if pick['codegen'] else {},
            'writer': {pick['writer']: 'fail'} if pick['writer'] else {},
            'searchers': srch, 'borrowers': borr,
            'options': {'noDeps': pick['noDeps'], 'rebuild': None, 'dryRun': None, 'genTexts': None,
                        'ignoreErrors': pick['ignoreErrors'], 'writeMibs': None},
            'realgen': False}


def small_sweep(ctx, prop, label='small-scope', quick_stride=61):
    """Run `prop(scenario, rec)` over the small scope: all of it in the thorough tier, every quick_stride-th scenario
    (offset by the seed) in the quick tier."""
    total = small_scope_size()
    stride = quick_stride if ctx.tier == 'quick' else 1

    def fn(rec, shard, nshards, seed, tier, extra):
        start = (seed % stride) if stride > 1 else 0
        k = 0
        for i in range(start, total, stride):
            if k % nshards == shard:
                prop(small_scenario(i), rec)
            k += 1
        return None
    ctx.parallel(label, fn)
    ctx.counters['%s.scope-size' % label] = total
    ctx.counters['%s.stride' % label] = stride
    if stride == 1:
        ctx.extra_cov['exhaustive_subdomain'] = (
            'small scope enumerated completely: %d scenarios = %s' % (total, ' x '.join('%s(%d)' % (n, len(list(v))) for n, v in SMALL_DIMS)))
    else:
        ctx.extra_cov['small_scope_sample'] = 'every %dth of the %d small-scope scenarios (all of them in the thorough tier)' % (stride, total)
