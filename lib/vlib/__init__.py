"""Verification library for the pysmi property checks (see /verif/DESIGN.md)."""
