"""Shared property body for the checks that compile generated module sets (C01, C03-C06, C15, C16)."""
import json

from vlib.core import Violation, digest
from vlib import mibgen, pipeline, oracle

# profile flag -> finding id that disables it while the finding is still open ('known')
FLAG_FINDINGS = {
    'forward_types': 'D07',
    'plain_type_imports': 'D14',
    'hyphen_imports': 'D16',
    'defval_bits': 'D19',
    'defval_empty_string': 'D21',
    'enum_defval_via_type': 'D22',
    'compl_object_first': 'D11',
    'allow_no_imports': 'D30',
    'defval_empty_bits': 'D33',
    'plain_type_from_local_tc': 'D35',
    'augments_forward_oid': 'D36',
}
FLAG_WHEN_OPEN = {'pykeywords': 'D17', 'v1_int_index': 'D24'}


def all_findings():
    from vlib.core import load_findings
    return load_findings(None)


def profile_for(findings, backends=('json', 'pysnmp'), **over):
    """Profile with every class generated, except classes of findings that are still open."""
    flags = {}
    f = all_findings()

    def is_open(fid):
        return bool(f.get(fid) and f[fid].get('state') == 'known')

    for flag, fid in FLAG_FINDINGS.items():
        flags[flag] = not is_open(fid)
    for flag, fid in FLAG_WHEN_OPEN.items():
        flags[flag] = (fid in f) and not is_open(fid)
    if 'pysnmp' not in backends:
        # findings that only concern the pysnmp backend do not restrict JSON-only checks
        for flag in ('plain_type_imports', 'hyphen_imports', 'defval_bits', 'enum_defval_via_type', 'allow_no_imports',
                     'plain_type_from_local_tc', 'augments_forward_oid'):
            flags[flag] = True
    flags.update(over)
    return mibgen.profile(**flags)


def excluded_flags(prof):
    return sorted(k for k in list(FLAG_FINDINGS) if not prof.get(k))


def evaluate(mset, backends=('json',), genTexts=False, keep_layout=False, seps=None, dialect=None):
    """Run the pipeline and both oracles. Returns (compiled, mismatches) with mismatches =
    [(backend, facet, detail)]."""
    tf = (lambda symbol, text: text) if keep_layout else None
    norm = (lambda t: t) if keep_layout else oracle.norm_default
    c = pipeline.run_set(mset, backends=backends, genTexts=genTexts, textFilter=tf, seps=seps, dialect=dialect)
    mm = []
    for (mname, stage), e in c.errors.items():
        mm.append((stage, 'compile-failed', '%s: %s: %r' % (mname, stage, e)))
    for m in mset['modules']:
        name = m['name']
        if 'json' in backends and name in c.json:
            for facet, detail in oracle.compare_json(m, c.json[name], genTexts, norm):
                mm.append(('json', facet, detail))
        if 'pysnmp' in backends and name in c.py_text:
            try:
                compile(c.py_text[name], name, 'exec')
            except SyntaxError as e:
                mm.append(('pysnmp', 'py-syntax', '%s: %r' % (name, e)))
                continue
            try:
                b, ns = pipeline.exec_module(c.py_text[name], name, loadTexts=True)
            except Exception as e:
                mm.append(('pysnmp', 'py-exec', '%s: %r' % (name, e)))
                continue
            c.__dict__.setdefault('builders', {})[name] = (b, ns)
            exports = b.exports.get(name)
            if exports is None:
                mm.append(('pysnmp', 'export', '%s: exportSymbols was not called for %r (called for %r)' % (
                    name, name, sorted(b.exports))))
                continue
            for facet, detail in oracle.compare_pysnmp(m, exports, ns, pipeline.describe, genTexts):
                mm.append(('pysnmp', facet, detail))
    return c, mm


def raise_first(mm, facets, case, compiled=None, backends=None):
    """Raise Violation for the first mismatch whose facet this property owns."""
    for backend, facet, detail in mm:
        if backends and backend not in backends and facet != 'compile-failed':
            continue
        root = facet.split('.')[0]
        if facet in facets or root in facets:
            extra = None
            if compiled is not None:
                extra = {'texts': compiled.texts}
            raise Violation('%s:%s' % (backend, facet), detail, case, extra)


def classify_set(mset, rec):
    mods = mset['modules']
    rec.count('modules.%d' % len(mods))
    for m in mods:
        rec.count('dialect.' + m['dialect'])
        for k in mibgen.kinds_in(m):
            rec.count('kind.' + k)
    fwd = sum(mibgen.forward_refs(m) for m in mods)
    cross = sum(mibgen.cross_refs(m) for m in mods)
    if fwd:
        rec.count('with-forward-oid-ref')
    if cross:
        rec.count('with-cross-module-parent')
    return fwd, cross


def set_digest(mset):
    return digest(mset)


def compile_json(mset, genTexts=False):
    """Compile the whole set through ONE MibCompiler (shared parser, symbol-table generator and JsonCodeGen), return
    (statuses, {module: parsed JSON document}, texts)."""
    import json as _json
    from pysmi.compiler import MibCompiler
    from pysmi.reader.callback import CallbackReader
    from pysmi.writer.callback import CallbackWriter
    from pysmi.searcher.stub import StubSearcher
    from pysmi.codegen.jsondoc import JsonCodeGen
    from vlib import fixtures
    pipeline.install_jinja_cache()
    texts = dict((m['name'], mibgen.render_simple(m)) for m in mset['modules'])

    def read(name, ctx):
        if name in texts:
            return texts[name]
        return fixtures.text(name) if name in fixtures.available() else ''

    written = {}
    comp = MibCompiler(pipeline.parser('smiV1Relaxed'), JsonCodeGen(), CallbackWriter(lambda n, d, c: written.__setitem__(n, d)))
    comp.addSources(CallbackReader(read))
    comp.addSearchers(StubSearcher(*fixtures.BASE_MODULES))
    res = comp.compile(*[m['name'] for m in mset['modules']], genTexts=genTexts)
    docs = {}
    for k, v in written.items():
        try:
            docs[k] = _json.loads(v)
        except ValueError:
            docs[k] = None
    return res, docs, texts


def evaluate_compile(mset, genTexts=False):
    """Mismatches [(backend, facet, detail)] of the JSON documents produced by one compile() call."""
    res, docs, texts = compile_json(mset, genTexts)
    mm = []
    for m in mset['modules']:
        name = m['name']
        if res.get(name) != 'compiled':
            mm.append(('compile', 'compile-failed', '%s: status %r error %r' % (name, res.get(name), getattr(res.get(name), 'error', None))))
            continue
        if docs.get(name) is None:
            mm.append(('compile', 'json-syntax', name))
            continue
        for facet, detail in oracle.compare_json(m, docs[name], genTexts, oracle.norm_default):
            mm.append(('compile-json', facet, detail))
        # the set loads together: every module the output imports from was looked up by this very call
        for dep, syms in (docs[name].get('imports') or {}).items():
            if isinstance(syms, list) and syms and dep not in res:
                mm.append(('compile', 'import-closure', '%s: the output imports %r from %s, which compile() never looked up '
                           '(statuses: %r)' % (name, syms[:4], dep, sorted(res))))
    return texts, mm
