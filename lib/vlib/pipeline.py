"""Helpers that drive the real pysmi pipeline on generated module sets, and the recording MIB builder."""
import copy
import json

from vlib import mibgen, fixtures

_parsers = {}


def parser(dialect):
    """A parser for 'smiV2' | 'smiV1' | 'smiV1Relaxed', reset before use."""
    from pysmi.parser.smi import parserFactory
    from pysmi.parser import dialect as dl
    if dialect not in _parsers:
        _parsers[dialect] = parserFactory(**getattr(dl, dialect))()
    p = _parsers[dialect]
    p.reset()
    return p


def dialect_of(mod):
    return 'smiV1' if mod['dialect'] == 'v1' else 'smiV2'


class Compiled(object):
    """Everything the pipeline produced for a module set."""

    def __init__(self):
        self.texts = {}
        self.trees = {}
        self.symtab = {}
        self.json_text = {}
        self.json = {}
        self.json_info = {}
        self.py_text = {}
        self.py_info = {}
        self.errors = {}     # (module, stage) -> exception


def run_set(mset, backends=('json',), genTexts=False, textFilter=None, seps=None, stop_on_error=False, dialect=None):
    """parse -> symtable -> codegen for every module of the set (dependency order = list order)."""
    from pysmi.codegen.symtable import SymtableCodeGen
    from pysmi.codegen.jsondoc import JsonCodeGen
    from pysmi.codegen.pysnmp import PySnmpCodeGen
    from pysmi import error
    install_jinja_cache()
    out = Compiled()
    out.symtab = fixtures.symtables()
    for i, m in enumerate(mset['modules']):
        name = m['name']
        toks, _ = mibgen.module_tokens(m)
        text, _ = mibgen.join_tokens(toks, (seps or {}).get(name) or mibgen.canonical_layout(toks))
        out.texts[name] = text
        try:
            trees = parser(dialect or dialect_of(m)).parse(text)
            out.trees[name] = trees[0]
        except Exception as e:   # a foreign exception is a failure to compile just as well (reported with its type)
            out.errors[(name, 'parse')] = e
            continue
        try:
            info, st = SymtableCodeGen().genCode(out.trees[name], out.symtab)
            out.symtab[info.name] = st
        except Exception as e:   # a foreign exception is a failure to compile just as well (reported with its type)
            out.errors[(name, 'symtable')] = e
    for m in mset['modules']:
        name = m['name']
        if name not in out.trees or (name, 'symtable') in out.errors:
            continue
        kw = {'genTexts': genTexts}
        if textFilter is not None:
            kw['textFilter'] = textFilter
        if 'json' in backends:
            try:
                info, text = JsonCodeGen().genCode(copy.deepcopy(out.trees[name]), out.symtab,
                                                   comments=['c1'], **kw)
                out.json_text[name] = text
                out.json_info[name] = info
                out.json[name] = json.loads(text)
            except Exception as e:   # a foreign exception is a failure to compile just as well (reported with its type)
                out.errors[(name, 'json')] = e
            except ValueError as e:
                out.errors[(name, 'json-syntax')] = e
        if 'pysnmp' in backends:
            try:
                info, text = PySnmpCodeGen().genCode(copy.deepcopy(out.trees[name]), out.symtab,
                                                     comments=['c1'], **kw)
                out.py_text[name] = text
                out.py_info[name] = info
            except Exception as e:   # a foreign exception is a failure to compile just as well (reported with its type)
                out.errors[(name, 'pysnmp')] = e
    return out


# ---------------------------------------------------------------------------
# recording MIB builder


class Spec(object):
    def __init__(self, items=()):
        self.items = list(items)

    def __add__(self, other):
        return Spec(self.items + [other])

    __iadd__ = __add__


class _Meta(type):
    """Classes handed out by the recording builder: usable as base classes, constructors and as objects."""

    def __getattr__(cls, name):
        if name.startswith('__'):
            raise AttributeError(name)
        if name == 'subtypeSpec':
            return Spec()
        if name.startswith(('set', 'register', 'get')):
            def call(*args, **kw):
                cls.__dict__['_class_calls'].append((name, args))
                return ()
            return call
        raise AttributeError(name)


class RecBase(object, metaclass=_Meta):
    _class_calls = []

    def __init__(self, *args, **kw):
        self.__dict__['args'] = args
        self.__dict__['kwargs'] = kw
        self.__dict__['calls'] = []

    def __getattr__(self, name):
        if name.startswith('__'):
            raise AttributeError(name)
        if name.startswith(('set', 'register', 'get')):
            def call(*args, **kw):
                self.calls.append((name, args))
                return self if name.startswith('set') else ()
            return call
        raise AttributeError(name)


def _mkclass(name):
    return _Meta(str(name), (RecBase,), {'_class_calls': [], '_rec_origin': name})


class RecordingBuilder(object):
    """Stands in for pysnmp's MibBuilder while a generated module is executed."""

    def __init__(self, loadTexts=True):
        self.loadTexts = loadTexts
        self.imports = []        # (module, [symbols])
        self.exports = {}        # module -> {name: object}
        self._classes = {}

    def importSymbols(self, module, *names):
        self.imports.append((module, list(names)))
        out = []
        for n in names:
            key = (module, n)
            if key not in self._classes:
                self._classes[key] = _mkclass(n)
            out.append(self._classes[key])
        return tuple(out)

    def exportSymbols(self, module, *anon, **named):
        self.exports.setdefault(module, {}).update(named)


def exec_module(pytext, name='generated', loadTexts=True):
    """compile + exec generated pysnmp code against a RecordingBuilder. Returns (builder, namespace)."""
    code = compile(pytext, name, 'exec')
    b = RecordingBuilder(loadTexts)
    ns = {'mibBuilder': b}
    exec(code, ns, ns)
    return b, ns


def own_spec(cls):
    """The constraints a class adds on top of what its bases already carry."""
    spec = vars(cls).get('subtypeSpec')
    if spec is None:
        return Spec()
    n = 0
    for b in cls.__bases__:
        try:
            n = max(n, len(b.subtypeSpec.items))
        except Exception:
            pass
    return Spec(spec.items[n:])


def origin_names(cls):
    """Names of the recorder-origin classes in a class's MRO (i.e. what it was imported as / derives from)."""
    out = []
    for c in getattr(cls, '__mro__', ()):
        o = c.__dict__.get('_rec_origin')
        if o and o not in out:
            out.append(o)
    return out


def describe(obj, type_classes=None):
    """Summarise an exported object of the recording builder."""
    if isinstance(obj, type):
        attrs = dict((k, v) for k, v in vars(obj).items() if not k.startswith('_'))
        if 'subtypeSpec' in attrs:
            attrs['subtypeSpec'] = own_spec(obj)
        return {'is_class': True, 'name': obj.__name__, 'origins': origin_names(obj), 'attrs': attrs}
    cls = type(obj)
    d = {'is_class': False, 'class': cls.__name__, 'origins': origin_names(cls), 'args': obj.args,
         'calls': list(obj.calls)}
    if len(obj.args) > 1 and isinstance(obj.args[1], RecBase):
        t = type(obj.args[1])
        d['syntax_class'] = t.__name__
        d['syntax_origins'] = origin_names(t)
        d['syntax_bases'] = [c.__name__ for c in t.__mro__]
        # attributes of a class made for this object only; when the object's syntax is a plain alias of a
        # named type (`_X_Type = ParentType`) the class is the parent itself and carries the parent's refinements
        own = '_rec_origin' not in vars(t) and t not in (type_classes or ())
        d['syntax_attrs'] = dict((k, v) for k, v in vars(t).items() if not k.startswith('_')) if own else {}
        if 'subtypeSpec' in d['syntax_attrs']:
            d['syntax_attrs']['subtypeSpec'] = own_spec(t)
    return d


def calls_named(desc, name):
    return [args for n, args in desc.get('calls', []) if n == name]


# ---------------------------------------------------------------------------
# real pysnmp MibBuilder


def load_with_pysnmp(py_texts, want, tmpdir):
    """Write generated modules to tmpdir and load module `want` with a real MibBuilder (pulls its imports)."""
    import os
    from pysnmp.smi import builder
    for name, text in py_texts.items():
        with open(os.path.join(tmpdir, name + '.py'), 'w') as f:
            f.write(text)
    mb = builder.MibBuilder()
    mb.addMibSources(builder.DirMibSource(tmpdir))
    mb.loadModules(want)
    return mb


# ---------------------------------------------------------------------------
# harness-side acceleration: pysmi builds a new jinja2.Environment per genCode() call and recompiles the
# 575-line template every time (~150 ms).  A shared in-memory *bytecode* cache (keyed by template name and
# the checksum of its source, so an edited template is always recompiled) removes that cost without
# changing what is rendered.

_cache_installed = []


def install_jinja_cache():
    if _cache_installed:
        return
    import jinja2
    from jinja2.bccache import BytecodeCache

    class MemCache(BytecodeCache):
        store = {}

        def load_bytecode(self, bucket):
            data = self.store.get(bucket.key)
            if data is not None:
                bucket.bytecode_from_string(data)

        def dump_bytecode(self, bucket):
            self.store[bucket.key] = bucket.bytecode_to_string()

    shared = MemCache()
    orig = jinja2.Environment.__init__

    def patched(self, *a, **kw):
        kw.setdefault('bytecode_cache', shared)
        orig(self, *a, **kw)

    jinja2.Environment.__init__ = patched
    _cache_installed.append(True)
