"""Reference oracles: what the JSON document and the executed pysnmp module must say about a model.

Written from the property statements and the documented output shape (DESIGN appendix B); nothing here calls
pysmi.  Every comparison function returns a list of (facet, detail) mismatches; the checks decide which
facets belong to their property.
"""
import re

from vlib import mibgen, fixtures
from vlib.mibgen import mapped

TEXT_KEYS = ('description', 'reference', 'organization', 'contactinfo')


def norm_default(text):
    return re.sub(r'\s+', ' ', text)


def fmt_time(t):
    """ExtUTCTime as the backends print it: YYYY-MM-DD HH:MM (two-digit years are 19xx)."""
    if len(t) == 11:
        t = '19' + t
    return '%s-%s-%s %s:%s' % (t[0:4], t[4:6], t[6:8], t[8:10], t[10:12])


JSON_TYPE_NAME = {'NetworkAddress': 'IpAddress'}
PY_TYPE_NAME = {'INTEGER': 'Integer32', 'OCTET STRING': 'OctetString', 'OBJECT IDENTIFIER': 'ObjectIdentifier',
                'BITS': 'Bits', 'Counter': 'Counter32', 'Gauge': 'Gauge32', 'NetworkAddress': 'IpAddress'}


def json_type_name(syn):
    base = syn['base']
    if isinstance(base, list):
        return mapped(base[1])
    if base == 'BITS':
        return 'Bits'
    return JSON_TYPE_NAME.get(base, base)


def py_type_name(syn):
    base = syn['base']
    if isinstance(base, list):
        return mapped(base[1])
    return PY_TYPE_NAME.get(base, base)


def expected_syntax(syn):
    """{'type': name, 'range'|'size': [(min,max)..] | 'enumeration': {..} | 'bits': {..}}"""
    out = {'type': json_type_name(syn), 'pytype': py_type_name(syn)}
    sub = syn.get('sub')
    if sub:
        if sub[0] in ('range', 'size'):
            out[sub[0]] = [(r[0]['v'], r[-1]['v']) for r in sub[1]]
        elif sub[0] == 'enum':
            out['enumeration'] = dict((l, v) for l, v in sub[1])
        elif sub[0] == 'bits':
            out['bits'] = dict((l, v) for l, v in sub[1])
    return out


def expected_default(dv):
    if not dv:
        return None
    f = dv['f']
    if f == 'decimal':
        return {'class': 'int', 'format': 'decimal', 'value': dv['v']}
    if f == 'hex':
        return {'class': 'int', 'format': 'hex', 'value': dv['v']}
    if f == 'bin':
        return {'class': 'int', 'format': 'bin', 'value': dv['v']}
    if f == 'string':
        return {'class': 'octets', 'format': 'string', 'value': dv['s']}
    if f == 'hexstr':
        return {'class': 'octets', 'format': 'hex', 'value': dv['digits'].lower()}
    if f == 'binstr':
        n = len(dv['digits'])
        return {'class': 'octets', 'format': 'hex', 'value': ('%0*x' % (n // 4, int(dv['digits'], 2))) if n else ''}
    if f == 'enum':
        return {'class': 'int', 'format': 'enum', 'value': dv['label']}
    if f == 'oid':
        return {'class': 'oid', 'format': 'oid', 'value': tuple(dv['oid'])}
    if f == 'bits':
        return {'class': 'bits', 'format': 'bits', 'value': sorted(dv['names'])}
    raise KeyError(f)


BASETYPE_CLASS = {'Integer32': 'int', 'Integer': 'int', 'OctetString': 'octets', 'ObjectIdentifier': 'oid',
                  'Bits': 'bits'}


def expected_entries(mod, genTexts=False, textnorm=norm_default):
    """key -> expected members for every symbol the JSON document must hold."""
    out = {}
    name = mod['name']

    def texts(e, d, pairs):
        for key, field in pairs:
            if d.get(field) is not None:
                e.setdefault('texts', {})[key] = textnorm(d[field])

    def home(r):
        # a MIB-II object imported from an SMIv1 base module is attributed to the SMIv2 module that defines it
        from vlib import smiv1ref
        h = smiv1ref.TABLE.get(r[0], {}).get(r[1])
        return h[0] if h else r[0]

    def refs(lst):
        return [{'module': home(r), 'object': mapped(r[1])} for r in lst]

    for d in mod['decls']:
        k = d['k']
        if k in ('seq', 'macro', 'choice'):
            continue
        e = {'decl': d['name']}
        if 'num' in d:
            e['oid'] = '.'.join(str(x) for x in d['num'])
        if k == 'value':
            e['class'] = 'objectidentity'
        elif k == 'oi':
            e['class'] = 'objectidentity'
            e['status'] = d['status']
            texts(e, d, (('description', 'descr'), ('reference', 'ref')))
        elif k == 'mi':
            e['class'] = 'moduleidentity'
            e['revisions'] = [{'revision': fmt_time(r[0]), 'description': textnorm(r[1])} for r in d['revisions']]
            e['lastupdated'] = d['lastupdated']
            texts(e, d, (('description', 'descr'), ('organization', 'org'), ('contactinfo', 'contact')))
        elif k == 'ot':
            e['class'] = 'objecttype'
            e['nodetype'] = d['role']
            e['status'] = d['status']
            e['maxaccess'] = d['access']
            if d['units'] is not None:
                e['units'] = textnorm(d['units'])
            if d['role'] in ('scalar', 'column'):
                e['syntax'] = expected_syntax(d['syntax'])
                e['default'] = expected_default(d.get('defval'))
                e['enum_resolved'] = dict((l, v) for l, v in ((d.get('info') or {}).get('enum') or []))
            if d['index']:
                e['indices'] = [{'module': home(ref), 'object': mapped(ref[1]), 'implied': imp} for imp, ref in d['index']]
            if d['augments']:
                e['augmention'] = mapped(d['augments'][1])
                e['augmention_module'] = d['augments'][0]
            texts(e, d, (('description', 'descr'), ('reference', 'ref')))
        elif k == 'nt':
            e['class'] = 'notificationtype'
            e['status'] = d['status']
            e['objects'] = refs(d['objects'])
            texts(e, d, (('description', 'descr'), ('reference', 'ref')))
        elif k == 'tt':
            e['class'] = 'notificationtype'
            e['objects'] = refs(d['vars'])
            texts(e, d, (('description', 'descr'), ('reference', 'ref')))
        elif k == 'og':
            e['class'] = 'objectgroup'
            e['status'] = d['status']
            e['objects'] = refs(d['objects'])
            texts(e, d, (('description', 'descr'), ('reference', 'ref')))
        elif k == 'ng':
            e['class'] = 'notificationgroup'
            e['status'] = d['status']
            e['objects'] = refs(d['notifs'])
            texts(e, d, (('description', 'descr'), ('reference', 'ref')))
        elif k == 'mc':
            e['class'] = 'modulecompliance'
            e['status'] = d['status']
            comp = []
            for c in d['modules']:
                m = c['name'] or name
                for g in c['mandatory'] or []:
                    comp.append({'object': mapped(g), 'module': m})
                for x in c['compl']:
                    if x['c'] == 'group':
                        comp.append({'object': mapped(x['name']), 'module': m})
            e['modulecompliance'] = comp
            texts(e, d, (('description', 'descr'), ('reference', 'ref')))
        elif k == 'ac':
            e['class'] = 'agentcapabilities'
            e['status'] = d['status']
            e['productrelease'] = d['release']
            texts(e, d, (('description', 'descr'), ('reference', 'ref')))
        elif k == 'td':
            e['class'] = 'type'
            e['type'] = expected_syntax(d['syntax'])
        elif k == 'tc':
            e['class'] = 'textualconvention'
            e['type'] = expected_syntax(d['syntax'])
            e['status'] = d['status']
            if d['display'] is not None:
                e['displayhint'] = d['display']
            texts(e, d, (('description', 'descr'), ('reference', 'ref')))
        if not genTexts:
            e.pop('texts', None)
        out[mapped(d['name'])] = e
    return out


def _cmp_syntax(exp, got, where, out, prefix='syntax'):
    if not isinstance(got, dict):
        out.append((prefix + '.type', '%s: no syntax record (%r), expected %r' % (where, got, exp)))
        return
    if got.get('type') != exp['type']:
        out.append((prefix + '.type', '%s: type %r, expected %r' % (where, got.get('type'), exp['type'])))
    cons = got.get('constraints') or {}
    for key in ('range', 'size'):
        want = exp.get(key)
        have = cons.get(key)
        if want is None and have is None:
            continue
        try:
            have_t = [(r['min'], r['max']) for r in have] if have is not None else None
        except Exception:
            have_t = have
        if have_t != want:
            out.append((prefix + '.constraints', '%s: %s %r, expected %r' % (where, key, have_t, want)))
    want = exp.get('enumeration')
    have = cons.get('enumeration')
    if (want or have) and want != have:
        out.append((prefix + '.constraints', '%s: enumeration %r, expected %r' % (where, have, want)))
    want = exp.get('bits')
    have = got.get('bits')
    if (want or have) and want != have:
        out.append((prefix + '.constraints', '%s: bits %r, expected %r' % (where, have, want)))


def _cmp_default(exp, got, where, out):
    if exp is None:
        if got:
            out.append(('default', '%s: unexpected default %r' % (where, got)))
        return
    if not got:
        out.append(('default', '%s: DEFVAL %r was not emitted' % (where, exp)))
        return
    d = got.get('default', got) if isinstance(got, dict) else got
    if not isinstance(d, dict):
        out.append(('default', '%s: default is %r' % (where, got)))
        return
    cls = BASETYPE_CLASS.get(d.get('basetype'))
    if cls != exp['class']:
        out.append(('default', '%s: basetype %r, expected class %s' % (where, d.get('basetype'), exp['class'])))
    val = d.get('value')
    fmt = d.get('format')
    ok = False
    try:
        if exp['format'] in ('decimal',):
            ok = fmt == 'decimal' and int(val) == exp['value'] and not isinstance(val, bool)
        elif exp['class'] == 'int' and exp['format'] in ('hex', 'bin'):
            ok = fmt == exp['format'] and int(val) == exp['value']
        elif exp['format'] == 'string':
            ok = fmt == 'string' and val == exp['value']
        elif exp['class'] == 'octets' and exp['format'] == 'hex':
            ok = fmt == 'hex' and isinstance(val, str) and val.lower() == exp['value']
        elif exp['format'] == 'enum':
            ok = fmt == 'enum' and val == exp['value']
        elif exp['format'] == 'oid':
            ok = fmt == 'oid' and tuple(int(x) for x in re.findall(r'\d+', str(val))) == exp['value']
        elif exp['format'] == 'bits':
            bits = val.get('bits') if isinstance(val, dict) else None
            ok = fmt == 'bits' and bits is not None and sorted(bits) == exp['value']
    except Exception:
        ok = False
    if not ok:
        out.append(('default', '%s: default %r, expected %r' % (where, d, exp)))


def compare_json(mod, doc, genTexts=False, textnorm=norm_default):
    """Compare a JSON document (already json.loads'ed) with the model. Returns [(facet, detail)]."""
    out = []
    exp = expected_entries(mod, genTexts, textnorm)
    have = set(doc) - set(['imports', 'meta'])
    want = set(exp)
    if 'imports' not in doc or 'meta' not in doc:
        out.append(('keyset', 'imports/meta missing: %r' % sorted(set(['imports', 'meta']) - set(doc))))
    elif doc['meta'].get('module') != mod['name']:
        out.append(('meta', 'meta.module %r, expected %r' % (doc['meta'].get('module'), mod['name'])))
    if have != want:
        out.append(('keyset', 'missing %r, unexpected %r' % (sorted(want - have), sorted(have - want))))
    for key in sorted(want & have):
        e = exp[key]
        g = doc[key]
        where = '%s::%s' % (mod['name'], key)
        if not isinstance(g, dict):
            out.append(('entry', '%s is %r' % (where, g)))
            continue
        if g.get('name') not in (key, e['decl']):
            out.append(('name', '%s: name member %r' % (where, g.get('name'))))
        if 'oid' in e and g.get('oid') != e['oid']:
            out.append(('oid', '%s: oid %r, expected %r' % (where, g.get('oid'), e['oid'])))
        if 'oid' not in e and 'oid' in g:
            out.append(('oid', '%s: unexpected oid %r' % (where, g.get('oid'))))
        for f in ('class', 'nodetype', 'status', 'maxaccess', 'units', 'productrelease', 'displayhint'):
            if (e.get(f) or None) != (g.get(f) or None):
                # lastupdated etc handled below
                out.append((f, '%s: %s %r, expected %r' % (where, f, g.get(f), e.get(f))))
        if e['class'] == 'moduleidentity':
            if (g.get('revisions') or []) != e['revisions']:
                out.append(('revisions', '%s: revisions %r, expected %r' % (where, g.get('revisions'), e['revisions'])))
            if genTexts and g.get('lastupdated') != e['lastupdated']:
                out.append(('lastupdated', '%s: %r, expected %r' % (where, g.get('lastupdated'), e['lastupdated'])))
        if 'syntax' in e:
            _cmp_syntax(e['syntax'], g.get('syntax'), where, out)
            _cmp_default(e.get('default'), g.get('default'), where, out)
        elif e['class'] == 'objecttype' and g.get('syntax'):
            out.append(('syntax.type', '%s: table/row carries a syntax %r' % (where, g.get('syntax'))))
        if 'type' in e:
            _cmp_syntax(e['type'], g.get('type'), where, out, 'type')
        for f in ('indices', 'objects', 'modulecompliance'):
            want_l = e.get(f) or []
            have_l = g.get(f) or []
            try:
                have_l = [dict((k, x[k]) for k in want_l[0]) for x in have_l] if want_l else have_l
            except Exception:
                pass
            if want_l != have_l:
                out.append((f, '%s: %s %r, expected %r' % (where, f, g.get(f), want_l)))
        if 'augmention' in e or 'augmention' in g:
            a = g.get('augmention') or {}
            if not isinstance(a, dict) or a.get('object') != e.get('augmention'):
                out.append(('augmention', '%s: augmention %r, expected object %r' % (where, g.get('augmention'),
                                                                                      e.get('augmention'))))
        wt = e.get('texts') or {}
        for f in TEXT_KEYS:
            if f in wt:
                if (g.get(f) or '') != wt[f]:
                    out.append(('text.' + f, '%s: %s %r, expected %r' % (where, f, g.get(f), wt[f])))
            elif f in g:
                if not genTexts:
                    out.append(('text-when-not-requested', '%s: %s present with genTexts off' % (where, f)))
                else:
                    out.append(('text.' + f, '%s: unexpected %s %r' % (where, f, g.get(f))))
    if not genTexts:
        # ... and nowhere deeper either (e.g. inside the members of a compliance statement); revision descriptions
        # are emitted in both modes, enumeration / bit labels are not text members
        def scan(node, path):
            if isinstance(node, dict):
                for k, v in node.items():
                    if k in ('enumeration', 'bits') and len(path) >= 2:
                        continue
                    if k in TEXT_KEYS and len(path) >= 2 and not (path[1] == 'revisions' and k == 'description'):
                        out.append(('text-when-not-requested', '%s::%s: member %r present with genTexts off' % (
                            mod['name'], '.'.join(str(x) for x in path), k)))
                    scan(v, path + [k])
            elif isinstance(node, list):
                for i, v in enumerate(node):
                    scan(v, path + [i])
        for key in sorted(want & have):
            if isinstance(doc[key], dict):
                for k, v in doc[key].items():
                    scan(v, [key, k])
    return out


# ---------------------------------------------------------------------------
# pysnmp side (recording builder)

PY_CLASS = {'objectidentity': 'ObjectIdentity', 'moduleidentity': 'ModuleIdentity', 'notificationtype': 'NotificationType',
            'objectgroup': 'ObjectGroup', 'notificationgroup': 'NotificationGroup', 'modulecompliance': 'ModuleCompliance',
            'agentcapabilities': 'AgentCapabilities'}
PY_NODE = {'scalar': 'MibScalar', 'table': 'MibTable', 'row': 'MibTableRow', 'column': 'MibTableColumn'}


def _spec_constraints(spec):
    """Flatten a recorded subtypeSpec into {'range': [...], 'size': [...], 'single': [...]}."""
    out = {'range': [], 'size': [], 'single': []}
    for item in getattr(spec, 'items', []):
        for c in getattr(item, 'args', ()):
            n = type(c).__name__
            if n == 'ValueRangeConstraint':
                out['range'].append(tuple(c.args))
            elif n == 'ValueSizeConstraint':
                out['size'].append(tuple(c.args))
            elif n == 'SingleValueConstraint':
                out['single'] += list(c.args)
    return out


def _named(nv):
    try:
        return dict(nv.args)
    except Exception:
        return None


def compare_pysnmp(mod, exports, ns, describe, genTexts=False, textnorm=None):
    """Compare what an executed pysnmp module exported (recording builder) with the model."""
    from vlib.pipeline import calls_named
    out = []
    exp = expected_entries(mod, genTexts, textnorm or (lambda t: t))
    type_classes = [v for k, v in ns.items() if isinstance(v, type) and not k.startswith('_')]
    for key in sorted(exp):
        e = exp[key]
        where = '%s::%s' % (mod['name'], key)
        if key not in exports:
            if e['class'] in ('type', 'textualconvention') and key in ns and isinstance(ns[key], type):
                out.append(('export', '%s (%s) is defined but not exported' % (where, e['class'])))
                obj = ns[key]
            else:
                out.append(('export', '%s (%s) is not exported' % (where, e['class'])))
                continue
        else:
            obj = exports[key]
        d = describe(obj, type_classes)
        if e['class'] in ('type', 'textualconvention'):
            if not d['is_class']:
                out.append(('class', '%s: exported object is not a class' % where))
                continue
            if e['type']['pytype'] not in [mapped(o) for o in d['origins']] and e['type']['pytype'] not in _local_bases(obj):
                out.append(('syntax.type', '%s: bases %r lack %r' % (where, d['origins'], e['type']['pytype'])))
            if e['class'] == 'textualconvention' and 'TextualConvention' not in d['origins']:
                out.append(('class', '%s: not a TextualConvention: %r' % (where, d['origins'])))
            _cmp_py_constraints(e['type'], d['attrs'], where, out)
            continue
        if d['is_class']:
            out.append(('class', '%s: exported object is a class' % where))
            continue
        want_cls = PY_NODE[e['nodetype']] if e['class'] == 'objecttype' else PY_CLASS[e['class']]
        if want_cls not in d['origins']:
            out.append(('class', '%s: pysnmp class %r, expected %s' % (where, d['origins'], want_cls)))
        if 'oid' in e:
            oid = d['args'][0] if d['args'] else None
            if oid != tuple(int(x) for x in e['oid'].split('.')):
                out.append(('oid', '%s: oid %r, expected %s' % (where, oid, e['oid'])))
        if e['class'] == 'objecttype' and e['nodetype'] in ('scalar', 'column'):
            acc = calls_named(d, 'setMaxAccess')
            if acc != [(e['maxaccess'],)]:
                out.append(('maxaccess', '%s: setMaxAccess %r, expected %r' % (where, acc, e['maxaccess'])))
            pt = e['syntax']['pytype']
            so = d.get('syntax_origins') or []
            if pt not in [mapped(o) for o in so] and pt not in (d.get('syntax_bases') or []):
                out.append(('syntax.type', '%s: syntax bases %r lack %r' % (where, so, pt)))
            _cmp_py_constraints(e['syntax'], d.get('syntax_attrs') or {}, where, out)
            _cmp_py_default(e.get('default'), e.get('enum_resolved') or {}, d.get('syntax_attrs') or {}, where, out)
        if 'indices' in e:
            got = calls_named(d, 'setIndexNames')
            want = tuple((x['implied'], x['module'], x['object']) for x in e['indices'])
            if got != [want]:
                out.append(('indices', '%s: setIndexNames %r, expected %r' % (where, got, want)))
        if e.get('objects') is not None and e['class'] != 'modulecompliance':
            got = calls_named(d, 'setObjects')
            want = tuple((x['module'], x['object']) for x in e['objects'])
            if (got != [want]) and not (not want and not got):
                out.append(('objects', '%s: setObjects %r, expected %r' % (where, got, want)))
        if e['class'] == 'modulecompliance':
            got = calls_named(d, 'setObjects')
            want = tuple((x['module'], x['object']) for x in e['modulecompliance'])
            if (got != [want]) and not (not want and not got):
                out.append(('modulecompliance', '%s: setObjects %r, expected %r' % (where, got, want)))
        if 'augmention' in e:
            target = ns.get(e['augmention'])
            calls = []
            if target is not None:
                if isinstance(target, type):
                    calls = [a for n, a in target.__dict__.get('_class_calls', []) if n == 'registerAugmentions']
                else:
                    calls = calls_named(describe(target), 'registerAugmentions')
            if ((mod['name'], key),) not in calls:
                out.append(('augmention', '%s: registerAugmentions on %s got %r' % (where, e['augmention'], calls)))
    return out


def _local_bases(cls):
    return [c.__name__ for c in getattr(cls, '__mro__', ())]


def _local_bases_of_syntax(obj):
    try:
        return [c.__name__ for c in type(obj.args[1]).__mro__]
    except Exception:
        return []


def _cmp_py_constraints(exp, attrs, where, out):
    spec = attrs.get('subtypeSpec')
    cons = _spec_constraints(spec) if spec is not None else {'range': [], 'size': [], 'single': []}
    for key in ('range', 'size'):
        want = exp.get(key) or []
        if cons[key] != want:
            out.append(('syntax.constraints', '%s: pysnmp %s %r, expected %r' % (where, key, cons[key], want)))
    if exp.get('enumeration'):
        want = exp['enumeration']
        if sorted(cons['single']) != sorted(want.values()):
            out.append(('syntax.constraints', '%s: pysnmp SingleValueConstraint %r, expected %r' % (
                where, cons['single'], sorted(want.values()))))
        nv = _named(attrs.get('namedValues'))
        if nv != want:
            out.append(('syntax.constraints', '%s: pysnmp namedValues %r, expected %r' % (where, nv, want)))
    if exp.get('bits'):
        nv = _named(attrs.get('namedValues'))
        if nv != exp['bits']:
            out.append(('syntax.constraints', '%s: pysnmp bits namedValues %r, expected %r' % (where, nv, exp['bits'])))


def _cmp_py_default(exp, syn, attrs, where, out):
    have = dict((k, attrs[k]) for k in ('defaultValue', 'defaultHexValue', 'defaultBinValue') if k in attrs)
    if exp is None:
        if have:
            out.append(('default', '%s: pysnmp unexpected default %r' % (where, have)))
        return
    if not have:
        out.append(('default', '%s: pysnmp DEFVAL %r was not emitted' % (where, exp)))
        return
    ok = False
    try:
        if exp['class'] == 'int' and exp['format'] in ('decimal', 'hex', 'bin'):
            v = list(have.values())[0]
            ok = len(have) == 1 and int(v) == exp['value'] and not isinstance(v, bool)
        elif exp['format'] == 'string':
            v = have.get('defaultValue')
            ok = getattr(v, 'args', None) == (exp['value'],)
        elif exp['class'] == 'octets' and exp['format'] == 'hex':
            v = have.get('defaultHexValue')
            ok = isinstance(v, str) and v.lower() == exp['value']
        elif exp['format'] == 'enum':
            v = have.get('defaultValue')
            ok = (v == syn.get(exp['value'], object()) and not isinstance(v, bool)) or v == exp['value']
        elif exp['format'] == 'oid':
            v = have.get('defaultValue')
            ok = tuple(int(x) for x in re.findall(r'\d+', str(v))) == exp['value']
        elif exp['format'] == 'bits':
            v = have.get('defaultValue')
            ok = isinstance(v, (tuple, list)) and sorted(v) == exp['value']
    except Exception:
        ok = False
    if not ok:
        out.append(('default', '%s: pysnmp default %r, expected %r' % (where, have, exp)))
