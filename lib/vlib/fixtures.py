"""Hand-written base MIB texts (pysmi ships none) and the model-side facts about them.

The texts are faithful minimal transcriptions of the RFC modules: OID skeleton,
application types with their tags/ranges, a few textual conventions, MACRO
definitions (skipped by the lexer).  WELL_KNOWN is written from the RFCs, not
computed by pysmi - it is the oracle side of every fixture reference.
"""
import os

_DIR = os.path.join(os.path.dirname(os.path.dirname(os.path.abspath(__file__))), 'fixtures', 'mibs')

# name -> (defining SMIv2 module, numeric OID)
WELL_KNOWN = {
    'org': ('SNMPv2-SMI', (1, 3)),
    'dod': ('SNMPv2-SMI', (1, 3, 6)),
    'internet': ('SNMPv2-SMI', (1, 3, 6, 1)),
    'directory': ('SNMPv2-SMI', (1, 3, 6, 1, 1)),
    'mgmt': ('SNMPv2-SMI', (1, 3, 6, 1, 2)),
    'mib-2': ('SNMPv2-SMI', (1, 3, 6, 1, 2, 1)),
    'transmission': ('SNMPv2-SMI', (1, 3, 6, 1, 2, 1, 10)),
    'experimental': ('SNMPv2-SMI', (1, 3, 6, 1, 3)),
    'private': ('SNMPv2-SMI', (1, 3, 6, 1, 4)),
    'enterprises': ('SNMPv2-SMI', (1, 3, 6, 1, 4, 1)),
    'security': ('SNMPv2-SMI', (1, 3, 6, 1, 5)),
    'snmpV2': ('SNMPv2-SMI', (1, 3, 6, 1, 6)),
    'snmpDomains': ('SNMPv2-SMI', (1, 3, 6, 1, 6, 1)),
    'snmpProxys': ('SNMPv2-SMI', (1, 3, 6, 1, 6, 2)),
    'snmpModules': ('SNMPv2-SMI', (1, 3, 6, 1, 6, 3)),
    'zeroDotZero': ('SNMPv2-SMI', (0, 0)),
}

# SMIv1 homes of the same nodes (RFC1155-SMI defines these six)
V1_SMI_NODES = ('internet', 'directory', 'mgmt', 'experimental', 'private', 'enterprises')

# Named types offered by the fixtures: name -> (module, base kind, enumeration or None)
#   base kind: 'int' | 'octets' | 'oid' | 'bits'
FIXTURE_TYPES = {
    'DisplayString': ('SNMPv2-TC', 'octets', None),
    'TruthValue': ('SNMPv2-TC', 'int', [('true', 1), ('false', 2)]),
    'RowStatus': ('SNMPv2-TC', 'int', [('active', 1), ('notInService', 2), ('notReady', 3),
                                       ('createAndGo', 4), ('createAndWait', 5), ('destroy', 6)]),
    'PhysAddress': ('SNMPv2-TC', 'octets', None),
    'TimeStamp': ('SNMPv2-TC', 'int', None),
}

BASE_MODULES = ('SNMPv2-SMI', 'SNMPv2-TC', 'SNMPv2-CONF', 'RFC1155-SMI', 'RFC1065-SMI', 'RFC-1212',
                'RFC-1215', 'RFC1213-MIB', 'RFC1158-MIB', 'SNMPv2-MIB', 'IF-MIB', 'IP-MIB', 'TCP-MIB',
                'UDP-MIB')

_cache = {}


def text(name):
    if name not in _cache:
        with open(os.path.join(_DIR, name)) as f:
            _cache[name] = f.read()
    return _cache[name]


def available():
    return sorted(os.listdir(_DIR))


_symtabs = {}


def symtables(names=None):
    """Symbol tables of the fixture modules, computed once per process with fresh objects."""
    from pysmi.parser.smi import parserFactory
    from pysmi.parser.dialect import smiV1Relaxed
    from pysmi.codegen.symtable import SymtableCodeGen
    if not _symtabs:
        parser = parserFactory(**smiV1Relaxed)()
        for name in available():
            for tree in parser.parse(text(name)):
                info, st = SymtableCodeGen().genCode(tree, _symtabs)
                _symtabs[info.name] = st
    import copy
    return copy.deepcopy(_symtabs)
