"""Invariants over (scenario, call log, result) for MibCompiler.compile() - shared by C07, C08, C09, C10, C19.

Each function raises Violation(facet, detail) or returns a dict of classification facts.
"""
from vlib.core import Violation
from vlib import orch


def facts(sc, out):
    """Derive from the call log what happened to each module (no model of compile() involved)."""
    f = {'gen_called': [], 'gen_returned': set(), 'gen_raised': set(), 'put': {}, 'borrowed_from': {},
         'borrow_calls': [], 'search_calls': [], 'reads': [], 'parsed_modules': [], 'parse_failures': 0}
    for e in out.log:
        k = e[0]
        if k == 'gen':
            f['gen_called'].append(e[1])
        elif k == 'gen-returned':
            f['gen_returned'].add(e[1])
        elif k == 'gen-raised':
            f['gen_raised'].add(e[1])
        elif k == 'put':
            f['put'].setdefault(e[1], []).append({'data': e[2], 'dryRun': e[3], 'outcome': e[4]})
        elif k == 'borrow':
            f['borrow_calls'].append((e[1], e[2], e[3]))
        elif k == 'search':
            f['search_calls'].append(e[1:])
        elif k == 'read':
            f['reads'].append((e[1], e[2]))
        elif k == 'parse':
            if e[1] is None:
                f['parse_failures'] += 1
            else:
                f['parsed_modules'].extend(e[1])
    for (idx, name), text in out.borrow_text.items():
        f['borrowed_from'].setdefault(name, []).append(idx)
    return f


def basic(sc, out, case):
    """C07 I1/I2 shape: a mapping came back, nothing was raised, all values are one of the six statuses."""
    from pysmi import error
    if out.exception == 'runaway':
        raise Violation('non-termination', 'compile() exceeded the call budget (%d logged calls)' % len(out.log), case)
    if out.exception is not None:
        raise Violation('compile-raised', '%r' % (out.exception,), case)
    res = out.result
    if not isinstance(res, dict):
        raise Violation('bad-return', 'compile returned %r' % type(res), case)
    for k, v in res.items():
        if str(v) not in orch.STATUSES:
            raise Violation('unknown-status', '%s: %r' % (k, v), case)
        if v == 'failed':
            err = getattr(v, 'error', None)
            if not isinstance(err, error.PySmiError):
                raise Violation('failed-without-error', '%s: error attribute %r' % (k, err), case)


def accounts_for_closure(sc, out, case):
    keys, supplied = orch.closure(sc)
    missing = sorted(k for k in keys if k not in out.result)
    if missing:
        raise Violation('module-unaccounted', 'no status for %r; result keys %r' % (missing, sorted(out.result)), case)
    return keys, supplied


def status_matches_effects(sc, out, case, f):
    """C07 I3-I5."""
    res = out.result
    write_on = sc['options'].get('writeMibs') is not False
    for name, puts in f['put'].items():
        if len(puts) > 1:
            raise Violation('written-twice', '%s handed to the writer %d times' % (name, len(puts)), case)
    if not write_on:
        if f['put']:
            raise Violation('written-with-writing-disabled', repr(sorted(f['put'])), case)
        return
    for name, status in res.items():
        puts = f['put'].get(name, [])
        ok_put = bool(puts) and puts[0]['outcome'] == 'ok'
        if status in ('compiled', 'borrowed') and not ok_put:
            raise Violation('status-without-write', '%s is %s but putData %s' % (
                name, status, 'failed' if puts else 'was never called'), case)
        if ok_put and status not in ('compiled', 'borrowed'):
            raise Violation('write-without-status', '%s was written successfully but is reported %s' % (name, status), case)
    for name, puts in f['put'].items():
        if name not in res:
            raise Violation('written-but-unreported', '%s was handed to the writer but has no status' % name, case)
        data = puts[0]['data']
        status = res[name]
        if name in out.gen_text and status != 'borrowed':
            if data != out.gen_text[name]:
                raise Violation('payload-differs', '%s: writer got %r, generator produced %r' % (
                    name, data[:80], out.gen_text[name][:80]), case)
        elif status == 'borrowed' or name in f['borrowed_from']:
            texts = [out.borrow_text[(i, name)] for i in f['borrowed_from'].get(name, [])]
            if data not in texts:
                raise Violation('payload-differs', '%s: writer got %r, borrowers supplied %r' % (name, data[:80], texts), case)
        else:
            raise Violation('payload-of-unknown-origin', '%s: %r' % (name, data[:80]), case)
        if puts[0]['outcome'] == 'fail':
            st_ = res[name]
            if st_ != 'failed' or getattr(st_, 'error', None) is not out.injected.get(('put', 0, name)):
                raise Violation('writer-error-not-reported', '%s: status %r error %r' % (name, st_, getattr(st_, 'error', None)), case)
    # failed entries carry the causing error where exactly one was injected for that module
    for name, status in res.items():
        if status == 'failed':
            inj = [v for (stage, i, n), v in out.injected.items() if n == name and stage in ('read', 'gen', 'put')]
            err = getattr(status, 'error', None)
            if name in f['gen_raised'] and ('gen', 0, name) in out.injected and name not in f['put']:
                if err is not out.injected[('gen', 0, name)]:
                    raise Violation('wrong-error', '%s failed in code generation but carries %r' % (name, err), case)


def terminal_statuses(sc, out, case, f):
    """Status <-> what the log shows (C07 I3 continued, C09, C10)."""
    res = out.result
    for name, status in res.items():
        if status == 'missing':
            views = orch.source_view(sc, name)
            if any(oc != 'absent' for oc, _, _ in views):
                raise Violation('missing-but-source-holds-it', '%s: sources %r' % (name, [v[0] for v in views]), case)
        if status == 'untouched':
            if name in f['gen_called'] or name in f['put']:
                raise Violation('untouched-but-generated', name, case)
        if status == 'unprocessed':
            if name in f['put']:
                raise Violation('unprocessed-but-written', name, case)
            if name not in f['gen_returned'] and name not in f['borrowed_from']:
                raise Violation('unprocessed-but-never-built', name, case)


def failure_set(sc, out, f):
    """Modules that could not be found / parsed / generated and that no borrower supplied (from the log)."""
    res = out.result
    bad = set()
    for name, status in res.items():
        if status in ('failed', 'missing') and not (name in f['put'] and f['put'][name][0]['outcome'] == 'fail'
                                                    and (name in f['gen_returned'] or name in f['borrowed_from'])):
            bad.add(name)
    return bad


def all_or_nothing(sc, out, case, f):
    """C09."""
    res = out.result
    ignore = bool(sc['options'].get('ignoreErrors'))
    write_on = sc['options'].get('writeMibs') is not False
    # failures known from the scenario + log, independent of the reported statuses
    keys, supplied = orch.closure(sc)
    F = set()
    for name in keys:
        if name in f['borrowed_from']:
            continue
        if name not in supplied and orch.supplier(sc, name)[0] is None:
            F.add(name)
        elif name in f['gen_raised']:
            F.add(name)
    built = set(f['gen_returned']) | set(n for n in f['borrowed_from'])
    built -= set(n for n, s in res.items() if s == 'untouched')
    # a file whose first module is fine but whose later module is broken: a parse/semantic failure happened in the
    # closure although every *named* module may be usable - the gate must still close
    tails = set()
    canon_of = {}
    last_read = None
    for e in out.log:
        if e[0] == 'read':
            last_read = (e[1], e[2])
        elif e[0] == 'parse' and last_read is not None:
            ent = sc['sources'][last_read[0]].get(last_read[1])
            if isinstance(ent, list) and len(ent) > 4 and ent[4] != 'good' and ent[2] == 'good' and ent[3]:
                tails.add(last_read[1])
                canon_of[last_read[1]] = ent[1]
            elif e[1] and (ent == 'good' or (isinstance(ent, list) and ent[2] == 'good')):
                for t in list(tails):
                    if canon_of[t] in e[1] or t in e[1]:
                        tails.discard(t)     # obtained again from a healthy file: the earlier failure is void
    info = {'F': sorted(F) + ['file:' + t for t in sorted(tails)], 'built': sorted(built)}
    if tails and not ignore:
        if f['put']:
            raise Violation('written-despite-failure', 'a later module of file(s) %r failed, yet written %r' % (
                sorted(tails), sorted(f['put'])), case)
        for name, status in res.items():
            if status in ('compiled', 'borrowed'):
                raise Violation('reported-built-despite-failure', '%s is %s although file(s) %r held a failing module' % (
                    name, status, sorted(tails)), case)
        return info
    if tails:
        return info
    if F and not ignore:
        if f['put']:
            raise Violation('written-despite-failure', 'failed/missing %r, yet written %r' % (sorted(F), sorted(f['put'])), case)
        for name, status in res.items():
            if status in ('compiled', 'borrowed'):
                raise Violation('reported-built-despite-failure', '%s is %s although %r failed' % (name, status, sorted(F)), case)
        for name in built:
            if res.get(name) != 'unprocessed' and name not in F:
                raise Violation('built-not-unprocessed', '%s was built but is reported %r (failures: %r)' % (
                    name, res.get(name), sorted(F)), case)
        for name in F:
            if res.get(name) not in ('failed', 'missing'):
                raise Violation('failure-not-reported', '%s is reported %r' % (name, res.get(name)), case)
    elif write_on:
        for name in built:
            puts = f['put'].get(name, [])
            if len(puts) != 1:
                raise Violation('built-not-written', '%s was built but handed to the writer %d times (ignoreErrors=%s, '
                                'failures=%r)' % (name, len(puts), ignore, sorted(F)), case)
            if puts[0]['outcome'] == 'ok' and res.get(name) not in ('compiled', 'borrowed'):
                raise Violation('built-not-reported', '%s written but reported %r' % (name, res.get(name)), case)
        for name in F:
            if res.get(name) not in ('failed', 'missing'):
                raise Violation('failure-not-reported', '%s is reported %r' % (name, res.get(name)), case)
    return info


def source_protocol(sc, out, case, f):
    """C08: order of sources, at most one fetch per (source, name), nothing after the supplier, supplier's text parsed."""
    per_name = {}
    for idx, name in f['reads']:
        per_name.setdefault(name, []).append(idx)
    for name, idxs in per_name.items():
        if len(set(idxs)) != len(idxs):
            raise Violation('fetched-twice', '%s asked %r' % (name, idxs), case)
        if idxs != sorted(idxs) or idxs != list(range(len(idxs))):
            raise Violation('source-order', '%s: sources asked in order %r' % (name, idxs), case)
        i, canon, extras = orch.supplier(sc, name)
        views = orch.source_view(sc, name)
        if i is not None:
            if idxs[-1] > i:
                raise Violation('asked-after-supplier', '%s: source %d holds a good copy, yet %r were asked' % (name, i, idxs), case)
            if idxs[-1] < i:
                # an earlier source must have ended the lookup by supplying something: only allowed if it holds text
                j = idxs[-1]
                if True:
                    raise Violation('lookup-stopped-early', '%s: stopped at source %d (%s) before supplier %d' % (
                        name, j, views[j][0], i), case)
        else:
            if len(idxs) != len(sc['sources']):
                raise Violation('lookup-stopped-early', '%s: only %r of %d sources asked, none holds a good copy' % (
                    name, idxs, len(sc['sources'])), case)
    # the text compiled is the supplier's: codegen double hashes the tree it receives
    for name in f['gen_returned']:
        pass
    return per_name


def supplier_text_compiled(sc, out, case, f):
    """The tree handed to the code generator comes from the first usable source (variant number = source index)."""
    keys, supplied = orch.closure(sc)
    for text, res in out.parsed:
        pass
    return supplied


def _file_names(sc, module):
    """Names under which a file holding `module` may have been asked for (its own name and file aliases)."""
    names = set([module])
    for src in sc['sources']:
        for k, v in src.items():
            if isinstance(v, list) and (v[1] == module or module in v[3]):
                names.add(k)
    return names


def searcher_protocol(sc, out, case, f):
    """C10-A."""
    res = out.result
    rebuild = bool(sc['options'].get('rebuild'))
    nodeps = bool(sc['options'].get('noDeps'))
    by_mod = {}
    for idx, name, mtime, rb in f['search_calls']:
        by_mod.setdefault(name, []).append((idx, mtime, rb))
    doubles = [i for i, s in enumerate(sc['searchers']) if s.get('stub') is None]
    info = {'fresh': 0}
    for name, calls in by_mod.items():
        # borrowed modules are checked a second time - split passes at index resets
        passes = [[]]
        for c in calls:
            if passes[-1] and c[0] <= passes[-1][-1][0]:
                passes.append([])
            passes[-1].append(c)
        for p in passes:
            idxs = [c[0] for c in p]
            if idxs != sorted(idxs):
                raise Violation('searcher-order', '%s: searchers asked in order %r' % (name, idxs), case)
            for idx, mtime, rb in p:
                if rb != rebuild:
                    raise Violation('rebuild-flag-not-passed', '%s: searcher %d got rebuild=%r' % (name, idx, rb), case)
                # the time handed over is the time of a file this module came from: its source in the first pass, a
                # borrower's copy in the second (any file served under one of the module's names is accepted)
                own = set()
                for kind, n in (('read', len(sc['sources'])), ('borrow', len(sc['borrowers']))):
                    for i in range(n):
                        for fname in _file_names(sc, name):
                            own.add(orch.file_mtime(sc, kind, i, fname))
                if mtime not in own:
                    raise Violation('searcher-given-foreign-mtime', '%s: searcher %d was asked with mtime %r, the files of '
                                    'this module carry %r' % (name, idx, mtime, sorted(own)), case)
            # stop at first fresh
            for pos, (idx, mtime, rb) in enumerate(p):
                s = sc['searchers'][idx]
                fresh = s['answers'].get(name) == 'fresh' and not (rebuild and s.get('honour_rebuild', True))
                if fresh and pos != len(p) - 1:
                    raise Violation('asked-after-fresh', '%s: searcher %d said fresh, later ones were still asked' % (name, idx), case)
    # predicted freshness from the scenario (first searcher in order saying fresh, stubs included)
    keys_, supplied_ = orch.closure(sc)
    for name, status in res.items():
        first_fresh = None
        for i, s in enumerate(sc['searchers']):
            if s.get('stub') is not None:
                if name in s['stub']:
                    first_fresh = i
                    break
            elif s['answers'].get(name) == 'fresh' and not (rebuild and s.get('honour_rebuild', True)):
                first_fresh = i
                break
        parsed_ok = name in supplied_   # a usable (parsable, symbol-table clean) text exists
        if first_fresh is not None and parsed_ok and name not in f['borrowed_from']:
            info['fresh'] += 1
            if status != 'untouched':
                raise Violation('fresh-but-not-untouched', '%s: searcher %d reports an up-to-date copy, status %s' % (
                    name, first_fresh, status), case)
            if name in f['gen_called'] or name in f['put']:
                raise Violation('fresh-but-regenerated', name, case)
        if status == 'untouched' and first_fresh is None:
            requested = name in _requested_modules(sc)
            if not (nodeps and not requested):
                raise Violation('untouched-without-cause', '%s: no searcher reports a fresh copy, noDeps=%r requested=%r' % (
                    name, nodeps, requested), case)
        if first_fresh is None and parsed_ok and nodeps and name not in _requested_modules(sc) and name not in f['borrowed_from']:
            if name in f['gen_called']:
                raise Violation('dependency-generated-under-noDeps', name, case)
        if first_fresh is None and parsed_ok and not (nodeps and name not in _requested_modules(sc)):
            if name not in f['gen_called']:
                raise Violation('needed-but-not-generated', '%s (status %s)' % (name, status), case)
    return info


def _requested_modules(sc):
    out = set()
    for r in sc['requested']:
        i, canon, extras = orch.supplier(sc, r)
        if i is not None:
            out.add(canon)
            out.update(extras)
        out.add(r)
    return out


def borrower_protocol(sc, out, case, f):
    """C19."""
    res = out.result
    gen_texts = bool(sc['options'].get('genTexts'))
    nodeps = bool(sc['options'].get('noDeps'))
    info = {'borrowed': 0, 'flavour_skips': 0}
    by_mod = {}
    for idx, name, opts in f['borrow_calls']:
        by_mod.setdefault(name, []).append(idx)
        if bool(opts.get('genTexts')) != gen_texts:
            raise Violation('borrower-wrong-genTexts', '%s: borrower %d asked with %r' % (name, idx, opts), case)
        if sc['borrowers'][idx]['genTexts'] != gen_texts:
            raise Violation('flavour-mismatch-reached-reader', '%s: borrower %d (genTexts=%r) was consulted for a '
                            'genTexts=%r request' % (name, idx, sc['borrowers'][idx]['genTexts'], gen_texts), case)
    keys, supplied = orch.closure(sc)
    requested = _requested_modules(sc)
    for name, idxs in by_mod.items():
        if name in f['gen_returned']:
            raise Violation('compiled-module-offered-to-borrower', name, case)
        if name in supplied and name not in f['gen_raised'] and name in f['parsed_modules']:
            raise Violation('healthy-module-offered-to-borrower', name, case)
        if idxs != sorted(idxs) or len(set(idxs)) != len(idxs):
            raise Violation('borrower-order', '%s: borrowers asked %r' % (name, idxs), case)
        if nodeps and name not in requested:
            raise Violation('dependency-borrowed-under-noDeps', name, case)
    # eligible failures must be offered to every flavour-matching borrower in order until one returns
    matching = [i for i, b in enumerate(sc['borrowers']) if b['genTexts'] == gen_texts]
    for name in keys:
        failed = (name not in supplied and orch.supplier(sc, name)[0] is None) or name in f['gen_raised']
        if not failed:
            continue
        if nodeps and name not in requested:
            continue
        expect = []
        for i in matching:
            expect.append(i)
            if sc['borrowers'][i]['holds'].get(name) == 'text':
                break
        got = by_mod.get(name, [])
        if got != expect:
            raise Violation('borrowers-not-consulted-as-documented', '%s failed; flavour-matching borrowers %r, '
                            'consulted %r, expected %r' % (name, matching, got, expect), case)
        holder = [i for i in expect if sc['borrowers'][i]['holds'].get(name) == 'text']
        if holder:
            info['borrowed'] += 1
            st_ = res.get(name)
            fresh = _fresh_for(sc, name)
            if fresh:
                if st_ != 'untouched':
                    raise Violation('borrowed-fresh-not-untouched', '%s: %r' % (name, st_), case)
            else:
                blockers = all_or_nothing_failures(sc, out, f)
                if blockers and not sc['options'].get('ignoreErrors'):
                    if st_ != 'unprocessed':
                        raise Violation('borrowed-not-unprocessed', '%s: %r (other failures %r)' % (name, st_, sorted(blockers)), case)
                elif sc['options'].get('writeMibs') is not False and sc['writer'].get(name, 'ok') == 'ok':
                    if st_ != 'borrowed':
                        raise Violation('borrowed-status', '%s was supplied by borrower %d but is reported %r' % (name, holder[0], st_), case)
                    puts = f['put'].get(name, [])
                    want = out.borrow_text.get((holder[0], name))
                    if len(puts) != 1 or puts[0]['data'] != want:
                        raise Violation('borrowed-not-verbatim', '%s: writer got %r, borrower gave %r' % (
                            name, [p['data'] for p in puts], want), case)
    return info


def _fresh_for(sc, name):
    rebuild = bool(sc['options'].get('rebuild'))
    for s in sc['searchers']:
        if s.get('stub') is not None:
            if name in s['stub']:
                return True
        elif s['answers'].get(name) == 'fresh' and not (rebuild and s.get('honour_rebuild', True)):
            return True
    return False


def all_or_nothing_failures(sc, out, f):
    keys, supplied = orch.closure(sc)
    F = set()
    for name in keys:
        if name in f['borrowed_from']:
            continue
        if name not in supplied and orch.supplier(sc, name)[0] is None:
            F.add(name)
        elif name in f['gen_raised']:
            F.add(name)
    return F
