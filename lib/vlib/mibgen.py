"""Model-based generator of well-formed MIB module sets with ground truth.

A *module set* is a JSON-able dict {'modules': [module, ...]} generated in
dependency order (module i may reference symbols of modules < i and of the
fixture base modules).  The model carries everything the oracles need; the text
is produced by `render_tokens` + `layout`, never the other way round.

Model shapes (all plain lists/dicts/str/int so they serialise into replays):

  module  {'name', 'dialect': 'v2'|'v1', 'exports': None|body, 'imports': [[from, [sym..]]..],
           'decls': [decl..]}
  oid     {'first': ['num', n] | ['iso'] | ['isonum'] | ['ref', module, name], 'arcs': [['n', k] | ['nn', label, k]..]}
  num     {'t': text as written, 'v': integer value}
  syntax  {'base': <token text> | ['named', name, module] | ['seqof', RowType] | ['rowtype', RowType],
           'sub': None | ['range', [[num] | [num, num]..]] | ['size', [...]] | ['enum', [[label, int]..]]
                 | ['bits', [[name, int]..]], 'tag': None | ['APPLICATION'|'UNIVERSAL', n]}
  decl    {'k': kind, 'name': ..., ...}   kinds: value oi mi ot nt tt og ng mc ac td tc seq macro choice
"""
import re
import keyword

from hypothesis import strategies as st

from vlib import fixtures

RESERVED = set('''ACCESS AGENT-CAPABILITIES APPLICATION AUGMENTS BEGIN BITS CONTACT-INFO CREATION-REQUIRES
Counter Counter32 Counter64 DEFINITIONS DEFVAL DESCRIPTION DISPLAY-HINT END ENTERPRISE EXTENDS FROM GROUP Gauge
Gauge32 IDENTIFIER IMPLICIT IMPLIED IMPORTS INCLUDES INDEX INSTALL-ERRORS INTEGER Integer32 IpAddress
LAST-UPDATED MANDATORY-GROUPS MAX-ACCESS MIN-ACCESS MODULE MODULE-COMPLIANCE MODULE-IDENTITY
NOTIFICATION-GROUP NOTIFICATION-TYPE NOTIFICATIONS OBJECT OBJECT-GROUP OBJECT-IDENTITY OBJECT-TYPE OBJECTS
OCTET OF ORGANIZATION Opaque PIB-ACCESS PIB-DEFINITIONS PIB-INDEX PIB-MIN-ACCESS PIB-REFERENCES PIB-TAG
POLICY-ACCESS PRODUCT-RELEASE REFERENCE REVISION SEQUENCE SIZE STATUS STRING SUBJECT-CATEGORIES SUPPORTS
SYNTAX TEXTUAL-CONVENTION TimeTicks TRAP-TYPE UNIQUENESS UNITS UNIVERSAL Unsigned32 VALUE VARIABLES
VARIATION WRITE-SYNTAX MACRO EXPORTS CHOICE NetworkAddress MAX'''.split())
FORBIDDEN = set('''ABSENT ANY BIT BOOLEAN BY COMPONENT COMPONENTS DEFAULT DEFINED ENUMERATED EXPLICIT EXTERNAL
FALSE MAX MIN MINUS-INFINITY NULL OPTIONAL PLUS-INFINITY PRESENT PRIVATE REAL SET TAGS TRUE WITH'''.split())
# names the generated pysnmp module itself uses at top level
PY_TEMPLATE_NAMES = set('''mibBuilder Integer OctetString ObjectIdentifier NamedValues ConstraintsIntersection
SingleValueConstraint ValueRangeConstraint ValueSizeConstraint ConstraintsUnion sys ModuleIdentity MibScalar
MibTable MibTableRow MibTableColumn NotificationType TextualConvention ModuleCompliance ObjectGroup
NotificationGroup AgentCapabilities ObjectIdentity Bits MibIdentifier iso'''.split())

U32 = 4294967295
U64 = 18446744073709551615

INT_BASES = ('INTEGER', 'Integer32', 'Counter32', 'Gauge32', 'Unsigned32', 'TimeTicks', 'Counter64')
V1_INT_BASES = ('INTEGER', 'Counter', 'Gauge', 'TimeTicks')
OCTET_BASES = ('OCTET STRING', 'IpAddress', 'Opaque')
V1_OCTET_BASES = ('OCTET STRING', 'IpAddress', 'Opaque', 'NetworkAddress')

SMI_HOME = {  # base type token -> import needed (module, symbol) for v2 / v1 modules
    'Integer32': 'SNMPv2-SMI', 'Counter32': 'SNMPv2-SMI', 'Gauge32': 'SNMPv2-SMI', 'Unsigned32': 'SNMPv2-SMI',
    'TimeTicks': 'SNMPv2-SMI', 'Counter64': 'SNMPv2-SMI', 'IpAddress': 'SNMPv2-SMI', 'Opaque': 'SNMPv2-SMI',
    'BITS': None, 'INTEGER': None, 'OCTET STRING': None, 'OBJECT IDENTIFIER': None,
}
V1_HOME = {'Counter': 'RFC1155-SMI', 'Gauge': 'RFC1155-SMI', 'TimeTicks': 'RFC1155-SMI', 'IpAddress': 'RFC1155-SMI',
           'Opaque': 'RFC1155-SMI', 'NetworkAddress': 'RFC1155-SMI', 'INTEGER': None, 'OCTET STRING': None,
           'OBJECT IDENTIFIER': None}

MACRO_NAMES = ('MODULE-IDENTITY', 'OBJECT-TYPE', 'TRAP-TYPE', 'NOTIFICATION-TYPE', 'OBJECT-IDENTITY',
               'TEXTUAL-CONVENTION', 'OBJECT-GROUP', 'NOTIFICATION-GROUP', 'MODULE-COMPLIANCE',
               'AGENT-CAPABILITIES')

ARC_POOL = (0, 1, 2, 3, 4, 5, 7, 9, 10, 48, 100, 481, 255, 65535, 2147483647, U32)

DEFAULT_PROFILE = {
    'modules': (1, 3),
    'decls': (2, 14),
    'dialects': ('v2',),
    'kinds': None,           # None = all kinds allowed by the dialect
    'skipblocks': True,      # MACRO / EXPORTS / CHOICE
    'texts': 'plain',        # 'plain' | 'nasty' | 'short'
    'hyphens': True,
    'pykeywords': False,     # identifier class of finding D17
    'forward_types': True,
    'shuffle': True,
    'defval': True,
    'defval_bits': True,
    'defval_empty_string': False,
    'defval_empty_bits': False,   # DEFVAL { {} } (D33)
    'compl_object_first': False,
    'v1_int_index': False,
    'max_depth_arcs': 3,
    'spell_numbers': True,
    'plain_type_imports': True,   # importing a plain (non-TC) type from another generated module (D14)
    'hyphen_imports': True,       # importing a hyphenated object name from another generated module (D16)
    'enum_defval_via_type': True,  # D22
    'multi_import_clauses': True,
    'allow_no_imports': True,
    'reuse_names': True,          # a module may declare a node named like a node of an earlier module
    'fixture_objects': True,      # INDEX / OBJECTS / VARIABLES may name ifIndex, sysDescr ... of the base MIBs
    'sequential_names': False,    # identifiers n1, N2, n3 ... by order of creation: independently drawn sets share their names
    'macro_end_substring': None,  # MACRO bodies containing END inside longer words (D25); None = unless D25 is open

    'plain_type_from_local_tc': True,   # D35
    'augments_forward_oid': True,       # D36: augmented row sorts after the augmenting row

    'oneline_short_texts': False,  # UNITS / DISPLAY-HINT / PRODUCT-RELEASE / capabilities REFERENCE without line breaks
     # a module without any IMPORTS clause (D30)
}


def profile(**kw):
    p = dict(DEFAULT_PROFILE)
    for k in kw:
        if k not in p:
            raise KeyError(k)
    p.update(kw)
    if p['macro_end_substring'] is None:
        from vlib.core import load_findings
        f = load_findings(None).get('D25')
        p['macro_end_substring'] = not (f and f.get('state') == 'known')
    return p



def ctext(alphabet, min_size=0, max_size=20):
    """Text over a fixed alphabet, drawn as a list of sampled characters.

    (st.text with differing alphabets trips a shrinker bug in Hypothesis 6.168: "N is not in list".)
    """
    return st.lists(st.sampled_from(sorted(set(alphabet))), min_size=min_size, max_size=max_size).map(''.join)


_UNI = [chr(c) for c in list(range(0x20, 0x7f)) + list(range(0xa0, 0x180)) + [0x394, 0x416, 0x5d0, 0x4e2d, 0x6587, 0x3042,
                                                                         0x1f600, 0x1d11e, 0x2028, 0x85, 0xfeff, 0x9,
                                                                         0xb, 0xc, 0x7f, 0x1]
        if chr(c) != '"']


def utext(max_size=6):
    return st.lists(st.sampled_from(_UNI), max_size=max_size).map(''.join)


# ---------------------------------------------------------------------------
# atoms

_LOW_START = 'abcdefghijklmnopqrstuvwxyz'
_ALNUM = 'abcdefghijklmnopqrstuvwxyzABCDEFGHIJKLMNOPQRSTUVWXYZ0123456789'


def _ident_tail():
    seg = ctext(_ALNUM, min_size=1, max_size=6)
    return st.lists(seg, min_size=1, max_size=3)


PLAIN_TEXT_ALPHABET = 'abcdefghijklmnopqrstuvwxyzABCDEFGHIJKLMNOPQRSTUVWXYZ0123456789 .,;:()-_/+*=<>[]{}!?%&#@$^~|'
NASTY_CHUNKS = ['\\', '\\n', '\\t', '\\x4', '\\u12', '\\N', '\\0', "\\'", "'", "'''", '{{ x }}', '{% if %}', '{#', '#}',
                '\t', '\n', '\r\n', '\r', '  ', '   ', 'a' * 90, 'Z9' * 70, '', 'é', 'üß', '中文',
                '\U0001f600', '%s', '%(x)s', '$', '`', '-- not a comment', 'END', 'BEGIN', ' ', 'x', 'word', '\\\n', '\\',
                # what JSON / HTML-safe encoders turn characters into, written literally in the MIB text
                '\\u0027', '\\u003c', '\\u003e', '\\u0026', '\\"'[:-1] + 'u0022', '<', '>', '&', '&amp;', '&#39;', '<b>', '\\\\', '\\/',
                '\\b', '\\f', '\\r']


# pieces of one unbroken word of 90-200 characters in which most positions are a backslash or the letter after one: wherever
# a renderer folds or cuts such a word, it does so inside or next to an escape sequence
_ESC_PIECES = ['\\', '\\', '\\n', '\\t', '\\\\', 'n', 't', 'ab', "\\'", '\\x41', 'u0041', '\\N', '0', '\\srv01', '.']
LONG_ESCAPE_WORD = st.lists(st.sampled_from(_ESC_PIECES), min_size=50, max_size=80).map(''.join)


def text_strategy(kind):
    if kind == 'short':
        return ctext('abcdefgh XYZ019.', min_size=0, max_size=8)
    if kind == 'plain':
        words = ctext(PLAIN_TEXT_ALPHABET, min_size=0, max_size=30)
        return st.one_of(words, st.lists(words, min_size=1, max_size=3).map(lambda l: '\n'.join(l)),
                         st.lists(words, min_size=2, max_size=3).map(lambda l: '\r\n   '.join(l)))
    if kind == 'nasty':
        chunk = st.one_of(st.sampled_from(NASTY_CHUNKS), ctext(PLAIN_TEXT_ALPHABET, max_size=12),
                          utext(6), st.sampled_from(NASTY_CHUNKS), ctext(PLAIN_TEXT_ALPHABET, max_size=12), LONG_ESCAPE_WORD)
        return st.lists(chunk, min_size=0, max_size=6).map(lambda l: ''.join(l).replace('"', ''))
    if kind == 'pysafe':
        # the 'nasty' alphabet minus backslashes (class of finding D18)
        chunks = [c for c in NASTY_CHUNKS if '\\' not in c]
        chunk = st.one_of(st.sampled_from(chunks), ctext(PLAIN_TEXT_ALPHABET, max_size=12),
                          utext(6).map(lambda t: t.replace('\\', '/')))
        return st.lists(chunk, min_size=0, max_size=6).map(lambda l: ''.join(l).replace('"', ''))
    raise KeyError(kind)


def number_value(lo, hi):
    """Integers in [lo, hi] biased to token-class boundaries."""
    bounds = [b for b in (0, 1, -1, 2, 7, 255, 65535, 2147483647, -2147483647, -2147483648, 2147483648, U32,
                          U32 + 1, -U32, -(U32 + 1), 2 ** 63 - 1, 2 ** 63, -2 ** 63, U64, -U64) if lo <= b <= hi]
    return st.one_of(st.sampled_from(bounds), st.integers(min_value=lo, max_value=hi)) if bounds else \
        st.integers(min_value=lo, max_value=hi)


@st.composite
def spelled_number(draw, lo, hi, allow_hexbin=True):
    v = draw(number_value(lo, hi))
    sp = draw(st.sampled_from(('dec', 'dec', 'dec', 'hex', 'bin'))) if (allow_hexbin and v >= 0) else 'dec'
    if sp == 'dec':
        return {'t': str(v), 'v': v}
    pad = draw(st.integers(min_value=0, max_value=3))
    if sp == 'hex':
        digits = '%x' % v
        if draw(st.booleans()):
            digits = digits.upper()
        return {'t': "'%s%s'%s" % ('0' * pad, digits, draw(st.sampled_from('hH'))), 'v': v}
    digits = bin(v)[2:]
    return {'t': "'%s%s'%s" % ('0' * pad, digits, draw(st.sampled_from('bB'))), 'v': v}


# ---------------------------------------------------------------------------
# the builder


class _Names(object):
    def __init__(self, draw, prof):
        self.draw = draw
        self.prof = prof
        self.used_mapped = set(x.replace('-', '_') for x in fixtures.WELL_KNOWN)
        self.used_mapped.update(fixtures.FIXTURE_TYPES)
        self.used_mapped.update(x.replace('-', '_') for x in PY_TEMPLATE_NAMES)
        self.used_mapped.update(['system', 'interfaces', 'at', 'ip', 'icmp', 'tcp', 'udp', 'egp', 'snmp',
                                 'ifIndex', 'ifEntry', 'ifTable', 'ifNumber', 'sysDescr', 'sysUpTime',
                                 'ExtUTCTime', 'ObjectName', 'NotificationName', 'ObjectSyntax'])
        self.n = 0

    def _fresh(self, first_upper):
        draw = self.draw
        if self.prof['sequential_names']:
            name = ('N' if first_upper else 'n') + ('x-' if self.n % 5 == 4 and self.prof['hyphens'] else '') + str(self.n + 1)
            self.n += 1
            self.used_mapped.add(name.replace('-', '_'))
            return name
        parts = draw(_ident_tail())
        if not self.prof['hyphens']:
            parts = parts[:1]
        head = draw(st.sampled_from(_LOW_START))
        name = head + '-'.join(parts)
        if first_upper:
            name = name[0].upper() + name[1:]
        # never let digits directly start a hyphen segment-free identifier look like a number: fine for SMI
        self.n += 1
        cand = name
        while (cand.replace('-', '_') in self.used_mapped or cand in RESERVED or cand in FORBIDDEN
               or cand.startswith(('MACRO', 'EXPORTS', 'CHOICE'))
               or (keyword.iskeyword(cand) or cand in ('None', 'True', 'False', 'print', 'exec', 'match', 'case', 'type'))
               or cand.replace('-', '_').lower() in ('none', 'true', 'false')):
            cand = name + str(self.n)
            self.n += 1
        self.used_mapped.add(cand.replace('-', '_'))
        return cand

    def lower(self):
        if self.prof['pykeywords'] and self.draw(st.integers(0, 5)) == 0:
            for kw in ('global', 'class', 'import', 'lambda', 'pass', 'yield', 'while', 'from', 'def', 'is', 'in',
                       'not', 'or', 'and', 'if', 'for', 'try', 'with', 'as', 'del', 'elif', 'else', 'raise', 'return'):
                if kw not in self.used_mapped:
                    self.used_mapped.add(kw)
                    return kw
        return self._fresh(False)

    def upper(self):
        return self._fresh(True)

    def label(self):
        # enumeration / bit labels need not be unique across the module
        draw = self.draw
        if draw(st.integers(0, 11)) == 0:
            # labels spelled like member names of the output documents or like Python keywords are ordinary labels
            return draw(st.sampled_from(('oid', 'name', 'class', 'type', 'syntax', 'default', 'status', 'units', 'bits',
                                         'enumeration', 'constraints', 'range', 'size', 'min', 'max', 'module', 'object',
                                         'value', 'format', 'basetype', 'description', 'imports', 'meta', 'global', 'lambda')))
        lab = draw(st.sampled_from(_LOW_START)) + draw(ctext(_ALNUM, min_size=0, max_size=5))
        if self.prof['hyphens'] and draw(st.integers(0, 4)) == 0:
            lab += '-' + draw(ctext(_ALNUM, min_size=1, max_size=4))
        return lab


class Builder(object):
    def __init__(self, draw, prof):
        self.draw = draw
        self.prof = prof
        self.names = _Names(draw, prof)
        self.text = text_strategy(prof['texts'])
        self.modules = []
        self.used_oids = set()
        # pools across the set: entries are dicts
        self.nodes = []      # {'module','name','oid':tuple}
        self.types = []      # {'module','name','kind': 'int'|'octets'|'oid'|'bits', 'enum':[..]|None,'bits':[..]|None,'tc':bool,'chain':n}
        self.objects = []    # {'module','name','role','access'}
        self.notifs = []     # {'module','name'}
        self.groups = []     # {'module','name'}
        self.rows = []       # {'module','name','index':[...]}
        if prof['fixture_objects']:
            # managed objects of the fixture base MIBs: SMIv2 modules import them from their SMIv2 home, SMIv1 modules
            # from RFC1213-MIB / RFC1158-MIB (the compiler relocates those imports)
            for mod_, nm, role in (('IF-MIB', 'ifIndex', 'column'), ('IF-MIB', 'ifNumber', 'scalar'),
                                   ('SNMPv2-MIB', 'sysDescr', 'scalar'), ('SNMPv2-MIB', 'sysUpTime', 'scalar')):
                self.objects.append({'module': mod_, 'name': nm, 'role': role, 'access': 'read-only', 'fixture': True, 'dialect': 'v2'})
                for v1m in ('RFC1213-MIB', 'RFC1158-MIB'):
                    self.objects.append({'module': v1m, 'name': nm, 'role': role, 'access': 'read-only', 'fixture': True, 'dialect': 'v1'})
        self.v1base = {}
        self.hide = set()    # names about to be declared locally: same-named symbols of other modules are invisible
        for n, (mod, oid) in fixtures.WELL_KNOWN.items():
            self.nodes.append({'module': mod, 'name': n, 'oid': tuple(oid), 'fixture': True})
        for n, (mod, kind, enum) in fixtures.FIXTURE_TYPES.items():
            self.types.append({'module': mod, 'name': n, 'kind': kind, 'enum': enum, 'bits': None, 'tc': True,
                               'chain': 1, 'fixture': True, 'constrained': False,
                               'nat': [0, U32] if n == 'TimeStamp' else ([-2147483648, 2147483647] if kind == 'int' else None),
                               'fixedlen': None})

    # -- helpers ----------------------------------------------------------

    def d(self, strategy):
        return self.draw(strategy)

    def flag(self, p_num=1, p_den=2):
        return self.draw(st.integers(0, p_den - 1)) < p_num

    def txt(self):
        return self.draw(self.text)

    def opt_txt(self):
        return self.txt() if self.flag() else None

    def line_txt(self):
        t = self.txt()
        if self.prof['oneline_short_texts']:
            t = re.sub(r'[\r\n\x0b\x0c\x1c-\x1e\x85\u2028\u2029]+', ' ', t)
        return t

    def opt_line_txt(self):
        return self.line_txt() if self.flag() else None

    def status(self, v1=False):
        if v1:
            return self.d(st.sampled_from(('mandatory', 'optional', 'obsolete', 'deprecated')))
        return self.d(st.sampled_from(('current', 'deprecated', 'obsolete')))

    # -- OIDs -------------------------------------------------------------

    def visible_nodes(self, mod):
        v1 = mod['dialect'] == 'v1'
        out = []
        for n in self.nodes:
            if n.get('fixture'):
                if v1 and n['name'] not in fixtures.V1_SMI_NODES:
                    continue
            elif n['module'] != mod['name'] and '-' in n['name'] and not self.prof['hyphen_imports']:
                continue
            out.append(n)
        # a local declaration hides same-named nodes of other modules
        local_names = set(n['name'] for n in out if n['module'] == mod['name']) | self.hide
        seen = set()
        res = []
        for n in out:
            if n['module'] != mod['name'] and n['name'] in local_names:
                continue
            if n['module'] != mod['name'] and not n.get('fixture'):
                if n['name'] in seen:
                    continue
                seen.add(n['name'])
            res.append(n)
        return res

    def new_oid(self, mod, local_bias=True, fixtures_only=False):
        draw = self.draw
        cands = self.visible_nodes(mod)
        if fixtures_only:
            cands = [n for n in cands if n.get('fixture')]
        local = [n for n in cands if n['module'] == mod['name']]
        choice = draw(st.integers(0, 9))
        if choice == 0:
            root = draw(st.sampled_from((0, 1, 2)))
            first, base = ['num', root], (root,)
        elif choice == 1:
            first, base = draw(st.sampled_from((['iso'], ['isonum']))), (1,)
        elif local and choice >= 4:
            n = draw(st.sampled_from(local))
            first, base = ['ref', n['module'], n['name']], n['oid']
        else:
            n = draw(st.sampled_from(cands))
            first, base = ['ref', n['module'], n['name']], n['oid']
        narcs = draw(st.integers(1, self.prof['max_depth_arcs']))
        if base in ((0,), (1,), (2,)) and first[0] in ('num',):
            narcs = max(narcs, 1)
        arcs = []
        for i in range(narcs):
            k = draw(st.one_of(st.sampled_from(ARC_POOL), st.integers(0, 40)))
            arcs.append(k)
        oid = tuple(base) + tuple(arcs)
        while oid in self.used_oids or len(oid) < 2:
            arcs[-1] = (arcs[-1] + 1) % (U32 + 1)
            oid = tuple(base) + tuple(arcs)
        self.used_oids.add(oid)
        spelled = []
        for k in arcs:
            if draw(st.integers(0, 3)) == 0:
                spelled.append(['nn', self.names.label(), k])
            else:
                spelled.append(['n', k])
        return {'first': first, 'arcs': spelled}, oid

    def fixture_ok(self, mod, o):
        """Objects of the base MIBs are offered under one module per importing module: the SMIv2 home for SMIv2
        modules, one of RFC1213-MIB / RFC1158-MIB (drawn once per module) for SMIv1 modules."""
        if not o.get('fixture'):
            return True
        if o['dialect'] != mod['dialect']:
            return False
        if mod['dialect'] == 'v1':
            if mod['name'] not in self.v1base:
                self.v1base[mod['name']] = self.draw(st.sampled_from(('RFC1213-MIB', 'RFC1213-MIB', 'RFC1213-MIB', 'RFC1158-MIB')))
            return o['module'] == self.v1base[mod['name']]
        return True

    def shadowed(self, mod, o):
        """o (a pool entry of another module) is hidden: by a local declaration of the same name, or by a same-named
        symbol of an earlier module (within one module a name resolves to exactly one defining module)."""
        if o['module'] == mod['name']:
            return False
        if o['name'] in self.hide:
            return True
        owner = None
        for n in self.nodes:
            if n['name'] == o['name'] and not n.get('fixture'):
                if n['module'] == mod['name']:
                    return True
                if owner is None:
                    owner = n['module']
        return owner is not None and owner != o['module']

    def reg_node(self, mod, name, oid):
        self.nodes.append({'module': mod['name'], 'name': name, 'oid': tuple(oid)})

    # -- syntaxes ---------------------------------------------------------

    def ranges(self, lo, hi, size=False):
        draw = self.draw
        n = draw(st.integers(1, 4))
        out = []
        hb = self.prof['spell_numbers']
        for i in range(n):
            a = draw(spelled_number(lo, hi, hb))
            if draw(st.booleans()):
                out.append([a])
            else:
                b = draw(spelled_number(lo, hi, hb))
                if b['v'] < a['v']:
                    a, b = b, a
                out.append([a, b])
        return out

    def enum_items(self, lo=-5, hi=40):
        draw = self.draw
        n = draw(st.integers(1, 6))
        vals = draw(st.lists(st.one_of(st.integers(lo, hi), st.sampled_from((0, 1, 2, 255, 2147483647, -2147483648))),
                             min_size=n, max_size=n, unique=True))
        labels = []
        while len(labels) < n:
            lab = self.names.label()
            if lab not in labels:
                labels.append(lab)
        return [[l, v] for l, v in zip(labels, vals)]

    def bit_items(self):
        draw = self.draw
        n = draw(st.integers(1, 6))
        vals = draw(st.lists(st.integers(0, 31), min_size=n, max_size=n, unique=True))
        labels = []
        while len(labels) < n:
            lab = self.names.label()
            if lab not in labels:
                labels.append(lab)
        return [[l, v] for l, v in zip(labels, vals)]

    def visible_types(self, mod):
        v1 = mod['dialect'] == 'v1'
        out = []
        for t in self.types:
            if t.get('fixture'):
                if v1 and t['name'] not in ('DisplayString', 'PhysAddress'):
                    continue
            elif t['module'] != mod['name']:
                if not t['tc'] and not self.prof['plain_type_imports']:
                    continue
                if '-' in t['name'] and not self.prof['hyphen_imports']:
                    continue
            out.append(t)
        return out

    def syntax(self, mod, for_type=False, want=None, allow_bits=True, allow_named=True):
        """Draw a leaf syntax. Returns (syntax model, info) where info describes the resolved base."""
        draw = self.draw
        v1 = mod['dialect'] == 'v1'
        kinds = ['int', 'int', 'octets', 'oid']
        if allow_bits and not v1:
            kinds.append('bits')
        if allow_named and self.visible_types(mod):
            kinds += ['named', 'named']
        kind = want or draw(st.sampled_from(kinds))
        if kind == 'named':
            cands = self.visible_types(mod)
            local = [t_ for t_ in cands if t_['module'] == mod['name']]
            if local and draw(st.booleans()):
                cands = local     # chains and siblings of locally declared types (fixture types outnumber them)
            t = draw(st.sampled_from(cands))
            sub = None
            info = {'kind': t['kind'], 'enum': t['enum'], 'bits': t['bits'], 'chain': t['chain'], 'inline_enum': False,
                    'constrained': t['constrained'], 'nat': t['nat'], 'fixedlen': t['fixedlen'], 'ranges': None}
            r = draw(st.integers(0, 3))
            if t['kind'] == 'int' and r == 0 and not t['enum']:
                sub = ['range', self.ranges(-2147483648, 2147483647)]
                info['constrained'] = True
            elif t['kind'] == 'int' and r == 1 and t['enum'] and not t.get('fixture'):
                # refinement of an enumerated type by a sub-enumeration
                items = [list(x) for x in t['enum']]
                keep = draw(st.integers(1, len(items)))
                sub = ['enum', items[:keep]]
                info = dict(info, enum=items[:keep], inline_enum=True)
            elif t['kind'] == 'octets' and r == 0:
                sub = ['size', self.ranges(0, 65535)]
                info['constrained'] = True
            return {'base': ['named', t['name'], t['module']], 'sub': sub, 'tag': None}, info
        if kind == 'int':
            base = draw(st.sampled_from(V1_INT_BASES if v1 else INT_BASES))
            r = draw(st.integers(0, 3))
            sub = None
            enum = None
            if base == 'INTEGER' and r == 0:
                enum = self.enum_items()
                sub = ['enum', enum]
            elif r == 1 and base != 'TimeTicks':
                if base in ('INTEGER', 'Integer32'):
                    sub = ['range', self.ranges(-2147483648, 2147483647)]
                elif base == 'Counter64':
                    sub = ['range', self.ranges(0, U64)]
                else:
                    sub = ['range', self.ranges(0, U32)]
            nat = [-2147483648, 2147483647] if base in ('INTEGER', 'Integer32') else ([0, U64] if base == 'Counter64' else [0, U32])
            rngs = [[r_[0]['v'], r_[-1]['v']] for r_ in sub[1]] if (sub and sub[0] == 'range') else None
            return {'base': base, 'sub': sub, 'tag': None}, {'kind': 'int', 'enum': enum, 'bits': None, 'chain': 0,
                                                               'inline_enum': bool(enum), 'constrained': bool(rngs),
                                                               'nat': nat, 'fixedlen': None, 'ranges': rngs}
        if kind == 'octets':
            base = draw(st.sampled_from(V1_OCTET_BASES if v1 else OCTET_BASES))
            sub = None
            if base in ('OCTET STRING', 'Opaque') and draw(st.booleans()):
                sub = ['size', self.ranges(0, 65535)]
            rngs = [[r_[0]['v'], r_[-1]['v']] for r_ in sub[1]] if sub else None
            return {'base': base, 'sub': sub, 'tag': None}, {'kind': 'octets', 'enum': None, 'bits': None, 'chain': 0,
                                                               'inline_enum': False, 'constrained': bool(rngs),
                                                               'nat': None, 'ranges': rngs, 'opaque': base == 'Opaque',
                                                               'fixedlen': 4 if base in ('IpAddress', 'NetworkAddress') else None}
        if kind == 'oid':
            return {'base': 'OBJECT IDENTIFIER', 'sub': None, 'tag': None}, {'kind': 'oid', 'enum': None, 'bits': None,
                                                                             'chain': 0, 'inline_enum': False,
                                                                             'constrained': False, 'nat': None,
                                                                             'fixedlen': None, 'ranges': None}
        if kind == 'bits':
            bits = self.bit_items()
            return {'base': 'BITS', 'sub': ['bits', bits], 'tag': None}, {'kind': 'bits', 'enum': None, 'bits': bits,
                                                                          'chain': 0, 'inline_enum': False,
                                                                          'constrained': False, 'nat': None,
                                                                          'fixedlen': None, 'ranges': None}
        raise KeyError(kind)

    def defval(self, mod, info):
        """Draw a DEFVAL compatible with the resolved base described by info, or None."""
        draw = self.draw
        if not self.prof['defval'] or not self.flag(1, 2):
            return None
        kind = info['kind']
        if kind == 'int':
            if info['enum']:
                if not info['inline_enum'] and not self.prof['enum_defval_via_type']:
                    return None
                lab = draw(st.sampled_from([x[0] for x in info['enum']]))
                return {'f': 'enum', 't': lab, 'label': lab}
            rngs = info.get('ranges')
            if info['constrained'] and not (info['chain'] == 0 and rngs):
                return None
            lo, hi = info['nat'] or [-2147483648, 2147483647]
            r = draw(st.integers(0, 2))
            if rngs:
                pick = draw(st.sampled_from(rngs))
                v = draw(st.sampled_from(pick))
                if r != 0 and v < 0:
                    r = 0
            elif r == 0:
                v = draw(number_value(lo, hi))
            else:
                v = draw(number_value(0, min(hi, U32)))
            if r == 0:
                return {'f': 'decimal', 't': str(v), 'v': v}
            pad = '0' * draw(st.integers(0, 2))
            if r == 1:
                return {'f': 'hex', 't': "'%s%x'%s" % (pad, v, draw(st.sampled_from('hH'))), 'v': v}
            return {'f': 'bin', 't': "'%s%s'%s" % (pad, bin(v)[2:], draw(st.sampled_from('bB'))), 'v': v}
        if kind == 'octets':
            if info.get('opaque'):
                return None
            rngs = info.get('ranges')
            if info['constrained'] and not (info['chain'] == 0 and rngs):
                return None
            n = None
            if info['fixedlen']:
                n = info['fixedlen']
            elif rngs:
                n = draw(st.sampled_from(draw(st.sampled_from(rngs))))
                if n > 12:
                    return None
            r = draw(st.integers(0, 2))
            if info['fixedlen']:
                r = 1
            if r == 0:
                lo_ = n if n is not None else (0 if self.prof['defval_empty_string'] else 1)
                hi_ = n if n is not None else 10
                if lo_ == 0 and not self.prof['defval_empty_string']:
                    return None
                s = draw(ctext('abcdefXYZ 0189.-_/\\\'\tnx', min_size=lo_, max_size=hi_))
                return {'f': 'string', 't': '"%s"' % s, 's': s}
            if n is None:
                n = draw(st.integers(0, 6))
            if r == 1:
                digits = draw(ctext('0123456789abcdefABCDEF', min_size=2 * n, max_size=2 * n))
                return {'f': 'hexstr', 't': "'%s'%s" % (digits, draw(st.sampled_from('hH'))), 'digits': digits}
            digits = draw(ctext('01', min_size=8 * n, max_size=8 * n))
            return {'f': 'binstr', 't': "'%s'%s" % (digits, draw(st.sampled_from('bB'))), 'digits': digits}
        if kind == 'oid':
            cands = self.visible_nodes(mod)
            n = draw(st.sampled_from(cands))
            return {'f': 'oid', 't': n['name'], 'ref': [n['module'], n['name']], 'oid': list(n['oid'])}
        if kind == 'bits':
            if not self.prof['defval_bits'] or not info['bits']:
                return None
            k = draw(st.integers(0 if self.prof['defval_empty_bits'] else 1, len(info['bits'])))
            chosen = [x[0] for x in info['bits']][:k]
            return {'f': 'bits', 'names': chosen, 't': None}
        return None


# ---------------------------------------------------------------------------
# declarations


def _gen_type_decl(b, mod):
    draw = b.draw
    name = b.names.upper()
    syn, info = b.syntax(mod, for_type=True, allow_bits=True)
    is_tc = mod['dialect'] != 'v1' and draw(st.booleans())
    parent_tc = (isinstance(syn['base'], list) and syn['base'][0] == 'named'
                 and any(t['name'] == syn['base'][1] and t['module'] == syn['base'][2] and (t['tc'] or t.get('tc_anc'))
                         for t in b.types))
    if is_tc and parent_tc:
        # RFC 2579 3.5: the SYNTAX of a textual convention cannot refer to another textual convention
        is_tc = False
    if (not is_tc and parent_tc and syn['base'][2] == mod['name'] and not b.prof['plain_type_from_local_tc']):
        syn, info = b.syntax(mod, for_type=True, allow_bits=True, allow_named=False)
        parent_tc = False
    if (False and not is_tc and mod['dialect'] != 'v1' and not b.prof['plain_type_from_local_tc']
            and isinstance(syn['base'], list) and syn['base'][0] == 'named' and syn['base'][2] == mod['name']
            and any(t['name'] == syn['base'][1] and t['module'] == mod['name'] and t['tc'] for t in b.types)):
        is_tc = True
    if syn['base'] == 'BITS' and not is_tc and mod['dialect'] != 'v1':
        pass
    if draw(st.integers(0, 5)) == 0 and isinstance(syn['base'], str) and syn['base'] in ('INTEGER', 'OCTET STRING') and not is_tc:
        syn['tag'] = [draw(st.sampled_from(('APPLICATION', 'UNIVERSAL'))), draw(st.integers(0, 30))]
    if is_tc:
        d = {'k': 'tc', 'name': name, 'display': b.opt_line_txt() if info['kind'] in ('int', 'octets') else None,
             'status': b.status(), 'descr': b.txt(), 'ref': b.opt_txt(), 'syntax': syn}
    else:
        d = {'k': 'td', 'name': name, 'syntax': syn}
    b.types.append({'module': mod['name'], 'name': name, 'kind': info['kind'], 'enum': info['enum'],
                    'bits': info['bits'], 'tc': is_tc, 'chain': info['chain'] + 1,
                    'constrained': info['constrained'], 'nat': info['nat'], 'fixedlen': info['fixedlen'],
                    'tc_anc': bool(parent_tc)})
    return [d]


def _gen_type_family(b, mod):
    """A type and two or three plain types derived from it (siblings that wait for the same declaration when the
    parent is declared after them)."""
    draw = b.draw
    out = _gen_type_decl(b, mod)
    parent = b.types[-1]
    if parent['tc'] and not b.prof['plain_type_from_local_tc']:
        return out
    for i in range(draw(st.integers(2, 3))):
        name = b.names.upper()
        out.append({'k': 'td', 'name': name, 'syntax': {'base': ['named', parent['name'], mod['name']], 'sub': None, 'tag': None}})
        b.types.append(dict(parent, name=name, tc=False, chain=parent['chain'] + 1, tc_anc=bool(parent['tc'] or parent.get('tc_anc'))))
    return out


def _gen_value(b, mod):
    name = b.names.lower()
    oid, num = b.new_oid(mod)
    b.reg_node(mod, name, num)
    return [{'k': 'value', 'name': name, 'oid': oid, 'num': list(num)}]


def _gen_oi(b, mod):
    name = b.names.lower()
    oid, num = b.new_oid(mod)
    b.reg_node(mod, name, num)
    return [{'k': 'oi', 'name': name, 'status': b.status(), 'descr': b.txt(), 'ref': b.opt_txt(), 'oid': oid,
             'num': list(num)}]


def _gen_mi(b, mod):
    draw = b.draw
    name = b.names.lower()
    oid, num = b.new_oid(mod)
    b.reg_node(mod, name, num)
    nrev = draw(st.integers(0, 3))
    revs = []
    for i in range(nrev):
        revs.append([_utc(draw), b.txt()])
    return [{'k': 'mi', 'name': name, 'lastupdated': _utc(draw), 'org': b.txt(), 'contact': b.txt(),
             'descr': b.txt(), 'revisions': revs, 'oid': oid, 'num': list(num)}]


def _utc(draw):
    # the two-digit form always means 19YY (RFC 2578 3.1), also for YY below 69
    y = draw(st.one_of(st.integers(1990, 2030), st.sampled_from((1900, 1905, 1950, 1968, 1969, 1970, 1999, 2000, 2038, 2068, 2099)),
                       st.integers(1900, 2099)))
    mo = draw(st.integers(1, 12))
    dd = draw(st.integers(1, 28))
    hh = draw(st.integers(0, 23))
    mi = draw(st.integers(0, 59))
    if y < 2000 and draw(st.booleans()):
        return '%02d%02d%02d%02d%02dZ' % (y - 1900, mo, dd, hh, mi)
    return '%04d%02d%02d%02d%02dZ' % (y, mo, dd, hh, mi)


def _access(draw, v1, column=False):
    if v1:
        return draw(st.sampled_from(('read-only', 'read-write', 'write-only', 'not-accessible')))
    return draw(st.sampled_from(('read-only', 'read-write', 'read-create', 'not-accessible', 'accessible-for-notify')))


def _gen_scalar(b, mod):
    draw = b.draw
    v1 = mod['dialect'] == 'v1'
    name = b.names.lower()
    syn, info = b.syntax(mod)
    oid, num = b.new_oid(mod)
    b.reg_node(mod, name, num)
    acc = _access(draw, v1)
    d = {'k': 'ot', 'role': 'scalar', 'name': name, 'syntax': syn, 'units': None if v1 else b.opt_line_txt(),
         'access': acc, 'status': b.status(v1), 'descr': b.txt() if (not v1 or b.flag()) else None,
         'ref': b.opt_txt(), 'augments': None, 'index': None, 'defval': b.defval(mod, info), 'oid': oid,
         'num': list(num), 'info': info}
    b.objects.append({'module': mod['name'], 'name': name, 'role': 'scalar', 'access': acc})
    return [d]


def _gen_table(b, mod):
    draw = b.draw
    v1 = mod['dialect'] == 'v1'
    tname = b.names.lower()
    rname = b.names.lower()
    rtype = b.names.upper()
    toid, tnum = b.new_oid(mod)
    b.reg_node(mod, tname, tnum)
    # row directly below the table: { table 1 } is customary but not required
    rarc = draw(st.sampled_from((1, 1, 1, 2, 7)))
    rnum = tuple(tnum) + (rarc,)
    while rnum in b.used_oids:
        rarc += 1
        rnum = tuple(tnum) + (rarc,)
    b.used_oids.add(rnum)
    roid = {'first': ['ref', mod['name'], tname], 'arcs': [['n', rarc]]}
    b.reg_node(mod, rname, rnum)
    ncols = draw(st.integers(1, 5))
    cols = []
    members = []
    for i in range(ncols):
        cname = b.names.lower()
        syn, info = b.syntax(mod)
        carc = i + 1 if draw(st.integers(0, 4)) else draw(st.sampled_from((4, 48, 481, 10, 100))) + i
        cnum = tuple(rnum) + (carc,)
        while cnum in b.used_oids:
            carc += 1
            cnum = tuple(rnum) + (carc,)
        b.used_oids.add(cnum)
        b.reg_node(mod, cname, cnum)
        acc = _access(draw, v1, True)
        cols.append({'k': 'ot', 'role': 'column', 'name': cname, 'syntax': syn, 'units': None if v1 else b.opt_line_txt(),
                     'access': acc, 'status': b.status(v1), 'descr': b.txt() if (not v1 or b.flag()) else None,
                     'ref': b.opt_txt(), 'augments': None, 'index': None, 'defval': b.defval(mod, info),
                     'oid': {'first': ['ref', mod['name'], rname], 'arcs': [['n', carc]]}, 'num': list(cnum),
                     'info': info})
        members.append([cname, _seq_syntax(draw, syn)])
        b.objects.append({'module': mod['name'], 'name': cname, 'role': 'column', 'access': acc})
    # index or augments
    augments = None
    index = None
    others = [r for r in b.rows if (r['module'] == mod['name'] or b.prof['hyphen_imports'] or '-' not in r['name'])]
    others = [r for r in others if not b.shadowed(mod, r)]
    if not b.prof['augments_forward_oid']:
        others = [r for r in others if r['module'] != mod['name'] or tuple(r['oid']) < tuple(rnum)]
    if others and not v1 and draw(st.integers(0, 3)) == 0:
        r = draw(st.sampled_from(others))
        augments = [r['module'], r['name']]
    else:
        nidx = draw(st.integers(1, min(4, ncols + 2)))
        pool = [[mod['name'], c['name']] for c in cols]
        foreign = [[o['module'], o['name']] for o in b.objects if o['role'] == 'column'
                   and o['name'] not in [c['name'] for c in cols]
                   and (o['module'] == mod['name'] or b.prof['hyphen_imports'] or '-' not in o['name'])
                   and b.fixture_ok(mod, o)
                   and not b.shadowed(mod, o)]
        idx = []
        for i in range(nidx):
            src = foreign if (foreign and draw(st.integers(0, 2)) == 0) else pool
            ref = draw(st.sampled_from(src))
            if ref not in [x[1] for x in idx]:
                idx.append([0, ref])
        if not v1 and draw(st.integers(0, 2)) == 0:
            idx[-1][0] = 1
        index = idx
    row = {'k': 'ot', 'role': 'row', 'name': rname, 'syntax': {'base': ['rowtype', rtype], 'sub': None, 'tag': None},
           'units': None, 'access': 'not-accessible', 'status': b.status(v1), 'descr': b.txt() if (not v1 or b.flag()) else None,
           'ref': b.opt_txt(), 'augments': augments, 'index': index, 'defval': None, 'oid': roid, 'num': list(rnum),
           'info': None}
    table = {'k': 'ot', 'role': 'table', 'name': tname, 'syntax': {'base': ['seqof', rtype], 'sub': None, 'tag': None},
             'units': None, 'access': 'not-accessible', 'status': b.status(v1), 'descr': b.txt() if (not v1 or b.flag()) else None,
             'ref': b.opt_txt(), 'augments': None, 'index': None, 'defval': None, 'oid': toid, 'num': list(tnum),
             'info': None}
    seq = {'k': 'seq', 'name': rtype, 'members': members}
    b.rows.append({'module': mod['name'], 'name': rname, 'oid': list(rnum)})
    b.objects.append({'module': mod['name'], 'name': tname, 'role': 'table', 'access': 'not-accessible'})
    b.objects.append({'module': mod['name'], 'name': rname, 'role': 'row', 'access': 'not-accessible'})
    return [table, row, seq] + cols


def _seq_syntax(draw, syn):
    """Abbreviated syntax of a SEQUENCE member: tokens + the name the parser keeps."""
    base = syn['base']
    if isinstance(base, list):
        return {'tokens': [base[1]], 'kept': base[1]}
    if base == 'BITS':
        return {'tokens': ['BITS'], 'kept': 'BITS'}
    if base == 'OCTET STRING':
        return {'tokens': ['OCTET', 'STRING'], 'kept': 'OCTET STRING'}
    if base == 'OBJECT IDENTIFIER':
        return {'tokens': ['OBJECT', 'IDENTIFIER'], 'kept': 'OBJECT IDENTIFIER'}
    return {'tokens': [base], 'kept': base}


def _pick_refs(b, mod, pool, lo, hi):
    draw = b.draw
    pool = [o for o in pool if (o['module'] == mod['name'] or b.prof['hyphen_imports'] or '-' not in o['name'])]
    pool = [o for o in pool if not b.shadowed(mod, o)]
    pool = [o for o in pool if b.fixture_ok(mod, o)]
    if mod['dialect'] == 'v1':
        pool = [o for o in pool if o['module'] == mod['name'] or _is_v1_module(b, o['module'])]
    if not pool:
        return []
    n = draw(st.integers(lo, hi))
    out = []
    for i in range(n):
        o = draw(st.sampled_from(pool))
        ref = [o['module'], o['name']]
        if ref not in out:
            out.append(ref)
    return out


def _is_v1_module(b, name):
    return True


def _gen_nt(b, mod):
    name = b.names.lower()
    oid, num = b.new_oid(mod)
    b.reg_node(mod, name, num)
    objs = _pick_refs(b, mod, [o for o in b.objects if o['role'] in ('scalar', 'column')], 0, 5)
    b.notifs.append({'module': mod['name'], 'name': name})
    return [{'k': 'nt', 'name': name, 'objects': objs, 'status': b.status(), 'descr': b.txt(), 'ref': b.opt_txt(),
             'oid': oid, 'num': list(num)}]


def _gen_tt(b, mod):
    draw = b.draw
    pre = []
    cands = b.visible_nodes(mod)
    if draw(st.integers(0, 3)) == 0:
        # an enterprise node of its own whose last sub-identifier is 0 (the trap OID then carries two zeros)
        oid, num = b.new_oid(mod)
        num0 = tuple(num[:-1]) + (0,)
        if num0 not in b.used_oids:
            b.used_oids.add(num0)
            oid['arcs'][-1] = ['n', 0] if oid['arcs'][-1][0] == 'n' else [oid['arcs'][-1][0], oid['arcs'][-1][1], 0]
            num = num0
        ename = b.names.lower()
        b.reg_node(mod, ename, num)
        pre = [{'k': 'value', 'name': ename, 'oid': oid, 'num': list(num)}]
        n = {'module': mod['name'], 'name': ename, 'oid': tuple(num)}
    else:
        n = draw(st.sampled_from(cands))
    name = b.names.lower()
    number = draw(st.one_of(st.integers(0, 20), st.sampled_from((0, 1, 6, 255, 65535, U32))))
    num = tuple(n['oid']) + (0, number)
    while num in b.used_oids:
        number = (number + 1) % (U32 + 1)
        num = tuple(n['oid']) + (0, number)
    b.used_oids.add(num)
    vars_ = _pick_refs(b, mod, [o for o in b.objects if o['role'] in ('scalar', 'column')], 0, 5)
    b.notifs.append({'module': mod['name'], 'name': name})
    return pre + [{'k': 'tt', 'name': name, 'enterprise': [n['module'], n['name']], 'vars': vars_, 'descr': b.opt_txt(),
                   'ref': b.opt_txt(), 'number': number, 'num': list(num)}]


def _gen_og(b, mod):
    pool = [o for o in b.objects if o['role'] in ('scalar', 'column')]
    pool = [o for o in pool if (o['module'] == mod['name'] or b.prof['hyphen_imports'] or '-' not in o['name'])]
    pool = [o for o in pool if not b.shadowed(mod, o) and b.fixture_ok(mod, o)]
    if not pool:
        return _gen_scalar(b, mod)
    objs = _pick_refs(b, mod, pool, 1, 6) or [[pool[0]['module'], pool[0]['name']]]
    name = b.names.lower()
    oid, num = b.new_oid(mod)
    b.reg_node(mod, name, num)
    b.groups.append({'module': mod['name'], 'name': name})
    return [{'k': 'og', 'name': name, 'objects': objs, 'status': b.status(), 'descr': b.txt(), 'ref': b.opt_txt(),
             'oid': oid, 'num': list(num)}]


def _gen_ng(b, mod):
    pool = list(b.notifs)
    refs = _pick_refs(b, mod, pool, 1, 5) if pool else []
    if not refs:
        return _gen_nt(b, mod)
    name = b.names.lower()
    oid, num = b.new_oid(mod)
    b.reg_node(mod, name, num)
    b.groups.append({'module': mod['name'], 'name': name})
    return [{'k': 'ng', 'name': name, 'notifs': refs, 'status': b.status(), 'descr': b.txt(), 'ref': b.opt_txt(),
             'oid': oid, 'num': list(num)}]


def _gen_mc(b, mod):
    draw = b.draw
    own_groups = [g for g in b.groups if g['module'] == mod['name']]
    own_objs = [o for o in b.objects if o['module'] == mod['name'] and o['role'] in ('scalar', 'column')]
    if not own_groups:
        return _gen_og(b, mod)
    name = b.names.lower()
    oid, num = b.new_oid(mod)
    b.reg_node(mod, name, num)
    nmods = draw(st.integers(1, 3))
    clauses = []
    seen_names = set()
    for i in range(nmods):
        # MODULE <empty> = this module; a named module refers to groups of that module
        other = [m['name'] for m in b.modules if m['name'] != mod['name']
                 and any(g['module'] == m['name'] for g in b.groups)]
        mname = None
        gpool = own_groups
        opool = own_objs
        if (i > 0 and (None in seen_names or draw(st.booleans()))) or (i == 0 and draw(st.integers(0, 2)) == 0):
            if other:
                mname = draw(st.sampled_from(other))
                gpool = [g for g in b.groups if g['module'] == mname]
                opool = [o for o in b.objects if o['module'] == mname and o['role'] in ('scalar', 'column')]
            elif i > 0:
                mname = mod['name']
        if mname in seen_names:
            continue
        seen_names.add(mname)
        mand = None
        if draw(st.integers(0, 3)):
            mand = [g['name'] for g in draw(st.lists(st.sampled_from(gpool), min_size=1, max_size=4,
                                                       unique_by=lambda g: g['name']))]
        ncomp = draw(st.integers(0, 4))
        compl = []
        for j in range(ncomp):
            if opool and draw(st.integers(0, 2)) == 0:
                o = draw(st.sampled_from(opool))
                ent = {'c': 'object', 'name': o['name'], 'syntax': None, 'wsyntax': None, 'minaccess': None,
                       'descr': b.txt()}
                r = draw(st.integers(0, 3))
                if r == 0:
                    ent['syntax'] = {'base': 'Integer32', 'sub': ['range', [[{'t': '0', 'v': 0}, {'t': '5', 'v': 5}]]],
                                     'tag': None}
                if r == 1:
                    ent['wsyntax'] = {'base': 'INTEGER', 'sub': ['enum', [['a', 1]]], 'tag': None}
                if draw(st.booleans()):
                    ent['minaccess'] = draw(st.sampled_from(('read-only', 'not-accessible', 'read-write')))
                compl.append(ent)
            else:
                g = draw(st.sampled_from(gpool))
                compl.append({'c': 'group', 'name': g['name'], 'descr': b.txt()})
        if compl and compl[0]['c'] == 'object' and not b.prof['compl_object_first']:
            # class of finding D11: a leading OBJECT refinement
            groups_first = [c for c in compl if c['c'] == 'group']
            if groups_first:
                compl.remove(groups_first[0])
                compl.insert(0, groups_first[0])
            else:
                compl = []
        if mand is None and not compl:
            mand = [gpool[0]['name']]
        clauses.append({'name': mname, 'mandatory': mand, 'compl': compl})
    return [{'k': 'mc', 'name': name, 'status': b.status(), 'descr': b.txt(), 'ref': b.opt_txt(),
             'modules': clauses, 'oid': oid, 'num': list(num)}]


def _gen_ac(b, mod):
    draw = b.draw
    name = b.names.lower()
    oid, num = b.new_oid(mod)
    b.reg_node(mod, name, num)
    supports = []
    own_groups = [g for g in b.groups if g['module'] == mod['name']]
    own_objs = [o for o in b.objects if o['module'] == mod['name'] and o['role'] in ('scalar', 'column')]
    if own_groups:
        for i in range(draw(st.integers(0, 2))):
            inc = [g['name'] for g in draw(st.lists(st.sampled_from(own_groups), min_size=1, max_size=3,
                                                     unique_by=lambda g: g['name']))]
            vars_ = []
            for j in range(draw(st.integers(0, 2))):
                if not own_objs:
                    break
                o = draw(st.sampled_from(own_objs))
                v = {'name': o['name'], 'access': draw(st.sampled_from((None, 'read-only', 'not-implemented'))),
                     'creation': None, 'descr': b.txt(), 'defval': None}
                if draw(st.integers(0, 2)) == 0:
                    v['creation'] = [x['name'] for x in draw(st.lists(st.sampled_from(own_objs), min_size=1,
                                                                       max_size=2, unique_by=lambda x: x['name']))]
                vars_.append(v)
            supports.append({'module': mod['name'], 'includes': inc, 'variations': vars_})
    return [{'k': 'ac', 'name': name, 'release': b.line_txt(), 'status': b.status(), 'descr': b.txt(),
             'ref': b.opt_line_txt(), 'supports': supports, 'oid': oid, 'num': list(num)}]


_BODY_ALPHABET = 'abcdefghijklmnopqrstuvwxyzABCDFGHIJKLMOPQRSTUVWXYZ0123456789 \t\n:=|"(),.-[]<>'


def _body(draw, forbid):
    s = draw(ctext(_BODY_ALPHABET, min_size=1, max_size=40))
    for f in forbid:
        s = s.replace(f, '')
    return s or 'x'


_END_WORD = re.compile(r'(?<![-a-zA-Z0-9])END(?![-a-zA-Z0-9])')


def _gen_macro(b, mod):
    draw = b.draw
    allowed = MACRO_NAMES
    if b.prof['macro_end_substring']:
        # the body ends at the first END that stands as a word of its own; END inside longer words is body text
        body = draw(ctext(_BODY_ALPHABET + 'END', min_size=1, max_size=40))
        if draw(st.booleans()):
            k = draw(st.integers(0, len(body)))
            body = body[:k] + ' ' + draw(st.sampled_from(('SEND', 'DEPENDS', 'ENDED', 'BACK-END', 'END-USER', 'xEND', 'END9', '7END'))) + ' ' + body[k:]
        body = _END_WORD.sub('ENDx', body) or 'x'
    else:
        # open finding D25: the body must not contain the substring END
        body = _body(draw, ('E', 'N', 'D'))
    body = 'BEGIN ' + body.replace('--', '- -')
    return [{'k': 'macro', 'name': draw(st.sampled_from(allowed)), 'body': body}]


def _gen_choice(b, mod):
    draw = b.draw
    name = b.names.upper()
    body = '{ ' + _body(draw, ('}',)).replace('--', '- -')
    return [{'k': 'choice', 'name': name, 'body': body}]


GENS = {
    'value': _gen_value, 'oi': _gen_oi, 'mi': _gen_mi, 'scalar': _gen_scalar, 'table': _gen_table, 'nt': _gen_nt,
    'tt': _gen_tt, 'og': _gen_og, 'ng': _gen_ng, 'mc': _gen_mc, 'ac': _gen_ac, 'type': _gen_type_decl,
    'typefam': _gen_type_family,
    'macro': _gen_macro, 'choice': _gen_choice,
}
V2_KINDS = ('value', 'value', 'oi', 'scalar', 'scalar', 'table', 'nt', 'og', 'ng', 'mc', 'ac', 'type', 'type', 'typefam')
V1_KINDS = ('value', 'value', 'scalar', 'scalar', 'table', 'tt', 'type', 'typefam')


def _needs(mod, bld):
    """Compute the (module, symbol) imports a module's declarations require."""
    need = []
    v1 = mod['dialect'] == 'v1'

    def add(m, s):
        if m and m != mod['name'] and [m, s] not in need:
            need.append([m, s])

    def add_oid(oid):
        f = oid['first']
        if f[0] == 'ref':
            m = f[1]
            if v1 and m == 'SNMPv2-SMI':
                m = 'RFC1155-SMI'
            add(m, f[2])

    def add_syn(syn):
        if not syn:
            return
        base = syn['base']
        if isinstance(base, list):
            if base[0] == 'named':
                m = base[2]
                if v1 and m == 'SNMPv2-TC':
                    m = 'RFC1213-MIB'
                add(m, base[1])
        else:
            home = (V1_HOME if v1 else SMI_HOME).get(base)
            if home:
                add(home, base)

    for d in mod['decls']:
        k = d['k']
        if 'oid' in d:
            add_oid(d['oid'])
        if k == 'mi':
            add('SNMPv2-SMI', 'MODULE-IDENTITY')
        elif k == 'oi':
            add('SNMPv2-SMI', 'OBJECT-IDENTITY')
        elif k == 'ot':
            add('RFC-1212' if v1 else 'SNMPv2-SMI', 'OBJECT-TYPE')
            add_syn(d['syntax'])
            if d['augments']:
                add(d['augments'][0], d['augments'][1])
            for imp, ref in d['index'] or []:
                add(ref[0], ref[1])
            dv = d.get('defval')
            if dv and dv['f'] == 'oid':
                m = dv['ref'][0]
                if v1 and m == 'SNMPv2-SMI':
                    m = 'RFC1155-SMI'
                add(m, dv['ref'][1])
        elif k == 'nt':
            add('SNMPv2-SMI', 'NOTIFICATION-TYPE')
            for r in d['objects']:
                add(r[0], r[1])
        elif k == 'tt':
            add('RFC-1215', 'TRAP-TYPE')
            m = d['enterprise'][0]
            if v1 and m == 'SNMPv2-SMI':
                m = 'RFC1155-SMI'
            add(m, d['enterprise'][1])
            for r in d['vars']:
                add(r[0], r[1])
        elif k == 'og':
            add('SNMPv2-CONF', 'OBJECT-GROUP')
            for r in d['objects']:
                add(r[0], r[1])
        elif k == 'ng':
            add('SNMPv2-CONF', 'NOTIFICATION-GROUP')
            for r in d['notifs']:
                add(r[0], r[1])
        elif k == 'mc':
            add('SNMPv2-CONF', 'MODULE-COMPLIANCE')
            for c in d['modules']:
                for e in c['compl']:
                    if e['c'] == 'object':
                        add_syn(e['syntax'])
                        add_syn(e['wsyntax'])
        elif k == 'ac':
            add('SNMPv2-CONF', 'AGENT-CAPABILITIES')
        elif k in ('td', 'tc'):
            if k == 'tc':
                add('SNMPv2-TC', 'TEXTUAL-CONVENTION')
            add_syn(d['syntax'])
        elif k == 'seq':
            pass
    return need


def _order_constraints_ok(decls, prof):
    return True


def _foreign_names_used(mod, groups, b):
    """Names of other modules' symbols that the declarations generated so far refer to (they will be imported, so
    the module cannot declare a symbol of the same name any more)."""
    partial = dict(mod, decls=[d for g in groups for d in g])
    return set(s_ for m_, s_ in _needs(partial, b))


@st.composite
def module_sets(draw, prof=None):
    prof = prof or profile()
    b = Builder(draw, prof)
    nmods = draw(st.integers(*prof['modules']))
    for mi in range(nmods):
        dialect = draw(st.sampled_from(prof['dialects']))
        while True:
            mname = b.names.upper()
            style = draw(st.integers(0, 3))
            if style == 0:
                mname = mname.upper()
            if style in (0, 1) and draw(st.booleans()):
                mname += '-MIB'
            if (mname in RESERVED or mname in FORBIDDEN or mname.startswith(('MACRO', 'EXPORTS', 'CHOICE'))
                    or mname in fixtures.BASE_MODULES or mname in [m['name'] for m in b.modules]):
                continue
            b.names.used_mapped.add(mname.replace('-', '_'))
            break
        mod = {'name': mname, 'dialect': dialect, 'exports': None, 'imports': [], 'decls': []}
        b.modules.append(mod)
        kinds = prof['kinds'] or (V1_KINDS if dialect == 'v1' else V2_KINDS)
        if prof['skipblocks']:
            kinds = tuple(kinds) + ('macro', 'choice')
        ndecl = draw(st.integers(*prof['decls']))
        groups = []   # list of decl lists (kept adjacent only logically)
        has_mi = False
        if prof['reuse_names'] and mi > 0 and draw(st.integers(0, 2)) == 0:
            # before anything of this module refers to them: re-declare names that earlier modules define
            foreign = [n for n in b.nodes if not n.get('fixture') and n['module'] != mname]
            # preferably a name that an earlier module imports from another one (a long-lived symbol-table generator
            # has seen it as an import before it meets it as a declaration)
            hot = [n for n in foreign if any(frm == n['module'] and n['name'] in syms
                                             for m_ in b.modules[:-1] for frm, syms in m_['imports'])]
            if hot and draw(st.booleans()):
                foreign = hot
            for n in draw(st.lists(st.sampled_from(foreign), max_size=2, unique_by=lambda x: x['name'])) if foreign else []:
                oid, num = b.new_oid(mod, fixtures_only=True)
                b.reg_node(mod, n['name'], num)
                chain = [{'k': 'value', 'name': n['name'], 'oid': oid, 'num': list(num)}]
                # and a small subtree below the re-declared name (its parent must resolve locally)
                parent_name, parent_num = n['name'], tuple(num)
                for depth in range(draw(st.integers(0, 3))):
                    cname = b.names.lower()
                    arc = draw(st.integers(1, 9))
                    cnum = parent_num + (arc,)
                    while cnum in b.used_oids:
                        arc += 1
                        cnum = parent_num + (arc,)
                    b.used_oids.add(cnum)
                    b.reg_node(mod, cname, cnum)
                    chain.append({'k': 'value', 'name': cname, 'oid': {'first': ['ref', mname, parent_name], 'arcs': [['n', arc]]},
                                  'num': list(cnum)})
                    parent_name, parent_num = cname, cnum
                groups.append(chain)
            # a scalar named like a table column (or scalar) of an earlier module
            used = _foreign_names_used(mod, groups, b)
            fobjs = [o for o in b.objects if o['module'] != mname and o['role'] in ('column', 'scalar') and not o.get('fixture')
                     and o['name'] not in used
                     and not any(n['module'] == mname and n['name'] == o['name'] for n in b.nodes)]
            if fobjs and 'scalar' in kinds and draw(st.booleans()):
                o = draw(st.sampled_from(fobjs))
                saved = b.names.lower
                b.names.lower = lambda: o['name']
                b.hide = {o['name']}     # the module must not also import the name it is about to declare
                try:
                    d_ = _gen_scalar(b, mod)
                finally:
                    b.names.lower = saved
                    b.hide = set()
                groups.append(d_)
            # a table whose first column (a likely INDEX member) is named like an object of an earlier module
            used = _foreign_names_used(mod, groups, b)
            fobjs = [o for o in fobjs if o['name'] not in used
                     and not any(n['module'] == mname and n['name'] == o['name'] for n in b.nodes)]
            if fobjs and 'table' in kinds and draw(st.booleans()):
                o = draw(st.sampled_from(fobjs))
                saved = b.names.lower
                calls = []

                def lower_(o=o, saved=saved, calls=calls):
                    calls.append(1)
                    return o['name'] if len(calls) == 3 else saved()     # table, row, first column
                b.names.lower = lower_
                b.hide = {o['name']}
                try:
                    d_ = _gen_table(b, mod)
                finally:
                    b.names.lower = saved
                    b.hide = set()
                groups.append(d_)
        if dialect == 'v2' and 'mi' in (prof['kinds'] or ('mi',)) and draw(st.integers(0, 3)):
            groups.append(_gen_mi(b, mod))
            has_mi = True
        while sum(len(g) for g in groups) < ndecl:
            kind = draw(st.sampled_from(kinds))
            if kind == 'mi':
                if has_mi or dialect == 'v1':
                    continue
                has_mi = True
            groups.append(GENS[kind](b, mod))
        decls = [d for g in groups for d in g]
        if prof['shuffle'] and draw(st.booleans()):
            decls = list(draw(st.permutations(decls)))
            if not prof['forward_types']:
                decls = _types_first(decls)
        mod['decls'] = decls
        if prof['skipblocks'] and draw(st.integers(0, 3)) == 0:
            mod['exports'] = _body(draw, (';',)).replace('--', '- -')
        need = _needs(mod, b)
        if not need and not prof['allow_no_imports']:
            need = [['RFC1155-SMI', 'Counter']] if dialect == 'v1' else [['SNMPv2-SMI', 'Integer32']]
        if need:
            need = list(draw(st.permutations(need)))
            clauses = []
            for m, s in need:
                hit = [c for c in clauses if c[0] == m]
                if hit and not (prof['multi_import_clauses'] and draw(st.integers(0, 7)) == 0):
                    hit[-1][1].append(s)
                else:
                    clauses.append([m, [s]])
            # a module may appear in several clauses only if not adjacent-merged; keep as drawn
            mod['imports'] = clauses
    return {'modules': b.modules}


def _types_first(decls):
    """Order type declarations so that every named parent type precedes its users (no forward type refs)."""
    types = [d for d in decls if d['k'] in ('td', 'tc')]
    rest = [d for d in decls if d['k'] not in ('td', 'tc')]
    names = {}
    for d in types:
        names[d['name']] = d
    done = []
    seen = set()

    def visit(d):
        if d['name'] in seen:
            return
        seen.add(d['name'])
        base = d['syntax']['base']
        if isinstance(base, list) and base[0] == 'named' and base[1] in names:
            visit(names[base[1]])
        done.append(d)

    for d in types:
        visit(d)
    return done + rest


# ---------------------------------------------------------------------------
# rendering: model -> token list


def _tok_oid_inner(oid, v1=False):
    f = oid['first']
    toks = []
    if f[0] == 'num':
        toks.append(str(f[1]))
    elif f[0] == 'iso':
        toks.append('iso')
    elif f[0] == 'isonum':
        toks += ['iso', '(', '1', ')']
    else:
        toks.append(f[2])
    for a in oid['arcs']:
        if a[0] == 'n':
            toks.append(str(a[1]))
        else:
            toks += [a[1], '(', str(a[2]), ')']
    return toks


def _tok_oid(oid):
    return ['{'] + _tok_oid_inner(oid) + ['}']


def _q(text):
    return '"%s"' % text


def _tok_ranges(rs):
    toks = []
    for i, r in enumerate(rs):
        if i:
            toks.append('|')
        toks.append(r[0]['t'])
        if len(r) == 2:
            toks += ['..', r[1]['t']]
    return toks


def _tok_syntax(syn):
    toks = []
    if syn.get('tag'):
        toks += ['[', syn['tag'][0], str(syn['tag'][1]), ']', 'IMPLICIT']
    base = syn['base']
    if isinstance(base, list):
        if base[0] == 'named':
            toks.append(base[1])
        elif base[0] == 'seqof':
            toks += ['SEQUENCE', 'OF', base[1]]
        elif base[0] == 'rowtype':
            toks.append(base[1])
    elif base in ('OCTET STRING', 'OBJECT IDENTIFIER'):
        toks += base.split(' ')
    else:
        toks.append(base)
    sub = syn.get('sub')
    if sub:
        if sub[0] == 'range':
            toks += ['('] + _tok_ranges(sub[1]) + [')']
        elif sub[0] == 'size':
            toks += ['(', 'SIZE', '('] + _tok_ranges(sub[1]) + [')', ')']
        elif sub[0] in ('enum', 'bits'):
            style = sub[2] if len(sub) > 2 else {}
            toks.append('{')
            for i, (lab, v) in enumerate(sub[1]):
                if i and i not in style.get('drop_comma', ()):
                    toks.append(',')
                toks += [lab, '(', str(v), ')']
            if style.get('trailing_comma'):
                toks.append(',')
            toks.append('}')
    return toks


def _tok_namelist(names):
    toks = ['{']
    for i, n in enumerate(names):
        if i:
            toks.append(',')
        toks.append(n)
    toks.append('}')
    return toks


def _tok_defval(dv):
    if dv['f'] == 'bits':
        toks = ['DEFVAL', '{', '{']
        for i, n in enumerate(dv['names']):
            if i:
                toks.append(',')
            toks.append(n)
        return toks + ['}', '}']
    return ['DEFVAL', '{', dv['t'], '}']


def _tok_decl(d, v1):
    k = d['k']
    if k == 'value':
        return [d['name'], 'OBJECT', 'IDENTIFIER', '::='] + _tok_oid(d['oid'])
    if k == 'oi':
        t = [d['name'], 'OBJECT-IDENTITY', 'STATUS', d['status'], 'DESCRIPTION', _q(d['descr'])]
        if d['ref'] is not None:
            t += ['REFERENCE', _q(d['ref'])]
        return t + ['::='] + _tok_oid(d['oid'])
    if k == 'mi':
        t = [d['name'], 'MODULE-IDENTITY', 'LAST-UPDATED', _q(d['lastupdated']), 'ORGANIZATION', _q(d['org']),
             'CONTACT-INFO', _q(d['contact']), 'DESCRIPTION', _q(d['descr'])]
        for r in d['revisions']:
            t += ['REVISION', _q(r[0]), 'DESCRIPTION', _q(r[1])]
        return t + ['::='] + _tok_oid(d['oid'])
    if k == 'ot':
        t = [d['name'], 'OBJECT-TYPE', 'SYNTAX'] + _tok_syntax(d['syntax'])
        if d['units'] is not None:
            t += ['UNITS', _q(d['units'])]
        if d['access'] is not None:
            t += ['ACCESS' if v1 else 'MAX-ACCESS', d['access']]
        t += ['STATUS', d['status']]
        if d['descr'] is not None:
            t += ['DESCRIPTION', _q(d['descr'])]
        if d['ref'] is not None:
            t += ['REFERENCE', _q(d['ref'])]
        if d['augments']:
            t += ['AUGMENTS', '{', d['augments'][1], '}']
        if d['index']:
            t += ['INDEX', '{']
            for i, (imp, ref) in enumerate(d['index']):
                if i:
                    t.append(',')
                if imp:
                    t.append('IMPLIED')
                if isinstance(ref, list):
                    t.append(ref[1])
                else:
                    t += ref.split(' ')
            t.append('}')
        if d.get('defval'):
            t += _tok_defval(d['defval'])
        return t + ['::='] + _tok_oid(d['oid'])
    if k == 'nt':
        t = [d['name'], 'NOTIFICATION-TYPE']
        if d['objects']:
            t += ['OBJECTS'] + _tok_namelist([r[1] for r in d['objects']])
        t += ['STATUS', d['status'], 'DESCRIPTION', _q(d['descr'])]
        if d['ref'] is not None:
            t += ['REFERENCE', _q(d['ref'])]
        return t + ['::='] + _tok_oid(d['oid'])
    if k == 'tt':
        t = [d['name'], 'TRAP-TYPE', 'ENTERPRISE']
        if d.get('curly'):
            t += ['{', d['enterprise'][1], '}']
        else:
            t.append(d['enterprise'][1])
        if d['vars']:
            t += ['VARIABLES'] + _tok_namelist([r[1] for r in d['vars']])
        if d['descr'] is not None:
            t += ['DESCRIPTION', _q(d['descr'])]
        if d['ref'] is not None:
            t += ['REFERENCE', _q(d['ref'])]
        return t + ['::=', str(d['number'])]
    if k in ('og', 'ng'):
        key, kw, macro = ('objects', 'OBJECTS', 'OBJECT-GROUP') if k == 'og' else ('notifs', 'NOTIFICATIONS',
                                                                                   'NOTIFICATION-GROUP')
        t = [d['name'], macro, kw] + _tok_namelist([r[1] for r in d[key]])
        t += ['STATUS', d['status'], 'DESCRIPTION', _q(d['descr'])]
        if d['ref'] is not None:
            t += ['REFERENCE', _q(d['ref'])]
        return t + ['::='] + _tok_oid(d['oid'])
    if k == 'mc':
        t = [d['name'], 'MODULE-COMPLIANCE', 'STATUS', d['status'], 'DESCRIPTION', _q(d['descr'])]
        if d['ref'] is not None:
            t += ['REFERENCE', _q(d['ref'])]
        for c in d['modules']:
            t.append('MODULE')
            if c['name']:
                t.append(c['name'])
            if c['mandatory'] is not None:
                t += ['MANDATORY-GROUPS'] + _tok_namelist(c['mandatory'])
            for e in c['compl']:
                if e['c'] == 'group':
                    t += ['GROUP', e['name'], 'DESCRIPTION', _q(e['descr'])]
                else:
                    t += ['OBJECT', e['name']]
                    if e['syntax']:
                        t += ['SYNTAX'] + _tok_syntax(e['syntax'])
                    if e['wsyntax']:
                        t += ['WRITE-SYNTAX'] + _tok_syntax(e['wsyntax'])
                    if e['minaccess']:
                        t += ['MIN-ACCESS', e['minaccess']]
                    t += ['DESCRIPTION', _q(e['descr'])]
        return t + ['::='] + _tok_oid(d['oid'])
    if k == 'ac':
        t = [d['name'], 'AGENT-CAPABILITIES', 'PRODUCT-RELEASE', _q(d['release']), 'STATUS', d['status'],
             'DESCRIPTION', _q(d['descr'])]
        if d['ref'] is not None:
            t += ['REFERENCE', _q(d['ref'])]
        for s in d['supports']:
            t += ['SUPPORTS', s['module'], 'INCLUDES'] + _tok_namelist(s['includes'])
            for v in s['variations']:
                t += ['VARIATION', v['name']]
                if v['access']:
                    t += ['ACCESS', v['access']]
                if v['creation'] is not None:
                    t += ['CREATION-REQUIRES'] + _tok_namelist(v['creation'])
                t += ['DESCRIPTION', _q(v['descr'])]
        return t + ['::='] + _tok_oid(d['oid'])
    if k == 'td':
        return [d['name'], '::='] + _tok_syntax(d['syntax'])
    if k == 'tc':
        t = [d['name'], '::=', 'TEXTUAL-CONVENTION']
        if d['display'] is not None:
            t += ['DISPLAY-HINT', _q(d['display'])]
        t += ['STATUS', d['status'], 'DESCRIPTION', _q(d['descr'])]
        if d['ref'] is not None:
            t += ['REFERENCE', _q(d['ref'])]
        return t + ['SYNTAX'] + _tok_syntax(d['syntax'])
    if k == 'seq':
        t = [d['name'], '::=', 'SEQUENCE', '{']
        for i, (cn, sx) in enumerate(d['members']):
            if i:
                t.append(',')
            t += [cn] + list(sx['tokens'])
        if d.get('trailing_comma'):
            t.append(',')
        return t + ['}']
    if k == 'macro':
        return [d['name'], 'MACRO', ('RAW', ' ::= ' + d['body'] + ' '), 'END']
    if k == 'choice':
        return [d['name'], '::=', 'CHOICE', ('RAW', ' ' + d['body'] + ' }')]
    raise KeyError(k)


def module_tokens(mod):
    """Token list of one module. Tokens are str, or ('RAW', text) for skipped-block bodies."""
    v1 = mod['dialect'] == 'v1'
    t = [mod['name'], 'DEFINITIONS', '::=', 'BEGIN']
    if mod.get('exports') is not None:
        t += ['EXPORTS', ('RAW', ' ' + mod['exports'] + ';')]
    if mod['imports']:
        t.append('IMPORTS')
        for ci, (m, syms) in enumerate(mod['imports']):
            for i, s in enumerate(syms):
                if i:
                    t.append(',')
                t.append(s)
            if ci in (mod.get('import_trailing_comma') or ()):
                t.append(',')
            t += ['FROM', m]
        t.append(';')
    bounds = []
    for d in mod['decls']:
        start = len(t)
        t += _tok_decl(d, v1)
        bounds.append((start, len(t)))
    t.append('END')
    return t, bounds


_PUNCT = set(['{', '}', '(', ')', ',', ';', '|', '[', ']'])


def can_abut(a, b):
    """Conservative: two tokens may be written without separator only if one is bracket-like punctuation."""
    if isinstance(a, tuple) or isinstance(b, tuple):
        return isinstance(a, tuple) or False
    if a in _PUNCT or b in _PUNCT:
        # '-' never follows '-' here; numbers may be negative after '(' or '|'
        return True
    return False


SEPARATORS = (' ', ' ', ' ', '\n', '\n', '  ', '\t', '\r\n', '\r', '\n\n', ' \n  ', '\n    ')


@st.composite
def layouts(draw, ntokens, comments=True, minimal=True):
    """A layout = list of separators, one before each token, plus a trailer."""
    seps = []
    choices = list(SEPARATORS)
    for i in range(ntokens + 1):
        r = draw(st.integers(0, 11))
        if i == ntokens and comments and r in (2, 3, 4):
            # the text may end inside a comment: a last line `-- ...` without a line end is legal
            body = draw(ctext('abcdefghij XYZ-:=;{}()"\',.0123456789', max_size=20))
            seps.append(draw(st.sampled_from((' ', '\n', '\t'))) + '--' + body)
        elif r == 0 and comments:
            body = draw(ctext('abcdefghij XYZ-:=;{}()"\',.0123456789', max_size=20))
            nl = draw(st.sampled_from(('\n', '\r\n', '\r')))
            seps.append(draw(st.sampled_from((' ', '\n', '\t'))) + '--' + body + nl)
        elif r == 1 and minimal:
            seps.append('')
        else:
            seps.append(draw(st.sampled_from(choices)))
    return seps


def canonical_layout(tokens):
    seps = []
    for i, t in enumerate(tokens):
        seps.append('\n' if i else '')
    seps.append('\n')
    return seps


def join_tokens(tokens, seps):
    """Join tokens with separators. Returns (text, spans); spans[i] = (offset, line, text) of token i.

    A separator '' is upgraded to ' ' when the two tokens could merge.
    """
    out = []
    spans = []
    pos = 0
    line = 1
    prev = None
    for i, tok in enumerate(tokens):
        sep = seps[i] if i < len(seps) else ' '
        raw = isinstance(tok, tuple)
        ttxt = tok[1] if raw else tok
        if raw:
            sep = ''
        elif i and sep == '' and not can_abut(prev, tok):
            sep = ' '
        out.append(sep)
        pos += len(sep)
        line += len(re.findall(r'\r\n|\n|\r', sep))
        spans.append((pos, line, ttxt))
        out.append(ttxt)
        pos += len(ttxt)
        line += len(re.findall(r'\r\n|\n|\r', ttxt))
        prev = tok
    tail = seps[len(tokens)] if len(seps) > len(tokens) else '\n'
    out.append(tail)
    return ''.join(out), spans


def render_module(mod, seps=None):
    toks, bounds = module_tokens(mod)
    if seps is None:
        seps = canonical_layout(toks)
    return join_tokens(toks, seps)


def render_simple(mod):
    return render_module(mod)[0]


# ---------------------------------------------------------------------------
# reference: expected syntax tree (Appendix A of DESIGN.md)


def _tree_num(n):
    t = n['t']
    return t if t.startswith("'") else n['v']


def _tree_ranges(rs):
    return [tuple(_tree_num(x) for x in r) for r in rs]


def tree_syntax(syn):
    base = syn['base']
    sub = syn.get('sub')
    if isinstance(base, list):
        if base[0] == 'seqof':
            return ('conceptualTable', ('row', base[1]))
        if base[0] == 'rowtype':
            return ('row', base[1])
        if not sub:
            return ('row', base[1])
        return ('SimpleSyntax', base[1], _tree_sub(sub))
    if base == 'BITS':
        return ('BITS', [(l, v) for l, v in sub[1]])
    if base in ('INTEGER', 'Integer32', 'OCTET STRING'):
        if sub:
            return ('SimpleSyntax', base, _tree_sub(sub))
        return ('SimpleSyntax', base)
    if base == 'OBJECT IDENTIFIER':
        return ('SimpleSyntax', base, None)
    if base in ('IpAddress', 'TimeTicks', 'NetworkAddress'):
        return ('ApplicationSyntax', base, _tree_sub(sub) if sub else None)
    if sub:
        return ('ApplicationSyntax', base, _tree_sub(sub))
    return ('ApplicationSyntax', base)


def _tree_sub(sub):
    if sub[0] == 'range':
        return ('integerSubType', _tree_ranges(sub[1]))
    if sub[0] == 'size':
        return ('octetStringSubType', _tree_ranges(sub[1]))
    if sub[0] == 'enum':
        return ('enumSpec', [(l, v) for l, v in sub[1]])
    raise KeyError(sub[0])


def tree_oid(oid):
    f = oid['first']
    subs = []
    if f[0] == 'num':
        subs.append(f[1])
    elif f[0] == 'iso':
        subs.append('iso')
    elif f[0] == 'isonum':
        subs.append(('iso', 1))
    else:
        subs.append(f[2])
    for a in oid['arcs']:
        subs.append(a[1] if a[0] == 'n' else (a[1], a[2]))
    return ('objectIdentifier', subs)


def _ref(t):
    return ('REFERENCE', t) if t is not None else None


def tree_decl(d):
    k = d['k']
    if k == 'value':
        return ('valueDeclaration', d['name'], tree_oid(d['oid']))
    if k == 'oi':
        return ('objectIdentityClause', d['name'], ('Status', d['status']), ('DESCRIPTION', d['descr']), _ref(d['ref']),
                tree_oid(d['oid']))
    if k == 'mi':
        revs = None
        if d['revisions']:
            revs = ('Revisions', [(r[0], ('DESCRIPTION', r[1])) for r in d['revisions']])
        return ('moduleIdentityClause', d['name'], ('LAST-UPDATED', d['lastupdated']), ('ORGANIZATION', d['org']),
                ('CONTACT-INFO', d['contact']), ('DESCRIPTION', d['descr']), revs, tree_oid(d['oid']))
    if k == 'ot':
        dv = None
        if d.get('defval'):
            x = d['defval']
            if x['f'] == 'bits':
                dv = ('DEFVAL', ('BitNames', list(x['names']))) if x['names'] else None
            elif x['f'] == 'decimal':
                dv = ('DEFVAL', x['v'])
            else:
                dv = ('DEFVAL', x['t'])
        idx = None
        if d['index']:
            idx = ('INDEX', [(imp, ref[1] if isinstance(ref, list) else ref) for imp, ref in d['index']])
        return ('objectTypeClause', d['name'], tree_syntax(d['syntax']),
                ('UNITS', d['units']) if d['units'] is not None else None,
                ('MaxAccessPart', d['access']) if d['access'] is not None else None,
                ('Status', d['status']),
                ('DESCRIPTION', d['descr']) if d['descr'] is not None else None,
                _ref(d['ref']), d['augments'][1] if d['augments'] else None, idx, dv, tree_oid(d['oid']))
    if k == 'nt':
        return ('notificationTypeClause', d['name'], ('Objects', [r[1] for r in d['objects']]) if d['objects'] else [],
                ('Status', d['status']), ('DESCRIPTION', d['descr']), _ref(d['ref']), tree_oid(d['oid']))
    if k == 'tt':
        return ('trapTypeClause', d['name'], ('objectIdentifier', [d['enterprise'][1]]),
                ('VarTypes', [r[1] for r in d['vars']]) if d['vars'] else [],
                ('DESCRIPTION', d['descr']) if d['descr'] is not None else None, _ref(d['ref']), d['number'])
    if k == 'og':
        return ('objectGroupClause', d['name'], ('Objects', [r[1] for r in d['objects']]), ('Status', d['status']),
                ('DESCRIPTION', d['descr']), _ref(d['ref']), tree_oid(d['oid']))
    if k == 'ng':
        return ('notificationGroupClause', d['name'], ('Notifications', [r[1] for r in d['notifs']]),
                ('Status', d['status']), ('DESCRIPTION', d['descr']), _ref(d['ref']), tree_oid(d['oid']))
    if k == 'mc':
        mods = []
        for c in d['modules']:
            objs = list(c['mandatory'] or [])
            objs += [e['name'] for e in c['compl'] if e['c'] == 'group']
            mods.append((c['name'], objs))
        return ('moduleComplianceClause', d['name'], ('Status', d['status']), ('DESCRIPTION', d['descr']),
                _ref(d['ref']), ('ComplianceModules', mods), tree_oid(d['oid']))
    if k == 'ac':
        return ('agentCapabilitiesClause', d['name'], ('PRODUCT-RELEASE', d['release']), ('Status', d['status']),
                ('DESCRIPTION', d['descr']), _ref(d['ref']), tree_oid(d['oid']))
    if k == 'td':
        return ('typeDeclaration', d['name'], ('typeDeclarationRHS', tree_syntax(d['syntax'])))
    if k == 'tc':
        return ('typeDeclaration', d['name'],
                ('typeDeclarationRHS', ('DISPLAY-HINT', d['display']) if d['display'] is not None else None,
                 ('Status', d['status']), ('DESCRIPTION', d['descr']), _ref(d['ref']), tree_syntax(d['syntax'])))
    if k == 'seq':
        return ('typeDeclaration', d['name'],
                ('typeDeclarationRHS', ('SEQUENCE', [(m[0], m[1]['kept']) for m in d['members']])))
    if k == 'macro':
        return None
    if k == 'choice':
        return ('typeDeclaration', d['name'], None)
    raise KeyError(k)


def expected_tree(mod):
    imports = None
    if mod['imports']:
        imports = {}
        for m, syms in mod['imports']:
            imports.setdefault(m, [])
            imports[m] = imports[m] + list(syms)
    decls = [tree_decl(d) for d in mod['decls']] or None
    return (mod['name'], None, imports, decls)


def normalize_tree(x):
    """Tuples/lists to a canonical nested-list form so model and parser trees compare structurally,
    keeping the tuple/list distinction out of the comparison (the design fixes shapes, not container types)."""
    if isinstance(x, (tuple, list)):
        return [normalize_tree(y) for y in x]
    if isinstance(x, dict):
        return {'__dict__': [[k, normalize_tree(v)] for k, v in x.items()]}
    return x


# ---------------------------------------------------------------------------
# ground truth helpers used by several checks


def mapped(name):
    return name.replace('-', '_')


def all_oids(mset):
    """{module name: {symbol name: oid tuple}}"""
    out = {}
    for m in mset['modules']:
        out[m['name']] = dict((d['name'], tuple(d['num'])) for d in m['decls'] if 'num' in d)
    return out


def kinds_in(mod):
    return sorted(set(d['k'] + (':' + d['role'] if d['k'] == 'ot' else '') for d in mod['decls']))


def forward_refs(mod):
    """Number of OID parent references to a node declared later in the same module."""
    pos = {}
    for i, d in enumerate(mod['decls']):
        pos[d['name']] = i
    n = 0
    for i, d in enumerate(mod['decls']):
        if 'oid' in d and d['oid']['first'][0] == 'ref' and d['oid']['first'][1] == mod['name']:
            if pos.get(d['oid']['first'][2], -1) > i:
                n += 1
    return n


def cross_refs(mod):
    n = 0
    for d in mod['decls']:
        if 'oid' in d and d['oid']['first'][0] == 'ref' and d['oid']['first'][1] != mod['name'] \
                and d['oid']['first'][1] not in fixtures.BASE_MODULES:
            n += 1
    return n


def type_chain_forward_depth(mod):
    """Longest chain of named-type references (type or object -> type) that point *forward* in the module."""
    pos = {}
    tdecl = {}
    for i, d in enumerate(mod['decls']):
        if d['k'] in ('td', 'tc'):
            pos[d['name']] = i
            tdecl[d['name']] = d
    best = 0
    for i, d in enumerate(mod['decls']):
        if d['k'] not in ('td', 'tc', 'ot'):
            continue
        depth = 0
        cur, curpos = d, i
        while True:
            base = cur['syntax']['base']
            if isinstance(base, list) and base[0] == 'named' and base[1] in tdecl and pos[base[1]] > curpos:
                depth += 1
                cur, curpos = tdecl[base[1]], pos[base[1]]
            else:
                break
        best = max(best, depth)
    return best
