"""Reference table: where the symbols of the SMIv1 base modules live in SMIv2.

Written from the RFCs (1155, 1212, 1213, 1215, 1158 for the SMIv1 side; 2578-2580, 3418, 2863, 4293, 4022,
4113 for the SMIv2 side), *not* from pysmi's convertImportv2.  home(module, symbol) -> (SMIv2 module, SMIv2
name) or None when the symbol has no SMIv2 home (it then stays where it is).
"""

SMI_NODES = ['internet', 'directory', 'mgmt', 'experimental', 'private', 'enterprises']
SMI_TYPES = {'ObjectName': 'ObjectName', 'ObjectSyntax': 'ObjectSyntax', 'SimpleSyntax': 'SimpleSyntax',
             'ApplicationSyntax': 'ApplicationSyntax', 'NetworkAddress': 'IpAddress', 'IpAddress': 'IpAddress',
             'Counter': 'Counter32', 'Gauge': 'Gauge32', 'TimeTicks': 'TimeTicks', 'Opaque': 'Opaque'}

SYSTEM = ['sysDescr', 'sysObjectID', 'sysUpTime', 'sysContact', 'sysName', 'sysLocation', 'sysServices']
IF = ['ifNumber', 'ifTable', 'ifEntry', 'ifIndex', 'ifDescr', 'ifType', 'ifMtu', 'ifSpeed', 'ifPhysAddress',
      'ifAdminStatus', 'ifOperStatus', 'ifLastChange', 'ifInOctets', 'ifInUcastPkts', 'ifInNUcastPkts',
      'ifInDiscards', 'ifInErrors', 'ifInUnknownProtos', 'ifOutOctets', 'ifOutUcastPkts', 'ifOutNUcastPkts',
      'ifOutDiscards', 'ifOutErrors', 'ifOutQLen', 'ifSpecific']
AT = ['atTable', 'atEntry', 'atIfIndex', 'atPhysAddress', 'atNetAddress']
IP = ['ipForwarding', 'ipDefaultTTL', 'ipInReceives', 'ipInHdrErrors', 'ipInAddrErrors', 'ipForwDatagrams',
      'ipInUnknownProtos', 'ipInDiscards', 'ipInDelivers', 'ipOutRequests', 'ipOutDiscards', 'ipOutNoRoutes',
      'ipReasmTimeout', 'ipReasmReqds', 'ipReasmOKs', 'ipReasmFails', 'ipFragOKs', 'ipFragFails', 'ipFragCreates',
      'ipAddrTable', 'ipAddrEntry', 'ipAdEntAddr', 'ipAdEntIfIndex', 'ipAdEntNetMask', 'ipAdEntBcastAddr',
      'ipAdEntReasmMaxSize', 'ipNetToMediaTable', 'ipNetToMediaEntry', 'ipNetToMediaIfIndex',
      'ipNetToMediaPhysAddress', 'ipNetToMediaNetAddress', 'ipNetToMediaType']
IP_ROUTE = ['ipRouteTable', 'ipRouteEntry', 'ipRouteDest', 'ipRouteIfIndex', 'ipRouteMetric1', 'ipRouteMetric2',
            'ipRouteMetric3', 'ipRouteMetric4', 'ipRouteNextHop', 'ipRouteType', 'ipRouteProto', 'ipRouteAge',
            'ipRouteMask', 'ipRouteMetric5', 'ipRouteInfo']
ICMP = ['icmpInMsgs', 'icmpInErrors', 'icmpInDestUnreachs', 'icmpInTimeExcds', 'icmpInParmProbs',
        'icmpInSrcQuenchs', 'icmpInRedirects', 'icmpInEchos', 'icmpInEchoReps', 'icmpInTimestamps',
        'icmpInTimestampReps', 'icmpInAddrMasks', 'icmpInAddrMaskReps', 'icmpOutMsgs', 'icmpOutErrors',
        'icmpOutDestUnreachs', 'icmpOutTimeExcds', 'icmpOutParmProbs', 'icmpOutSrcQuenchs', 'icmpOutRedirects',
        'icmpOutEchos', 'icmpOutEchoReps', 'icmpOutTimestamps', 'icmpOutTimestampReps', 'icmpOutAddrMasks',
        'icmpOutAddrMaskReps']
TCP = ['tcpRtoAlgorithm', 'tcpRtoMin', 'tcpRtoMax', 'tcpMaxConn', 'tcpActiveOpens', 'tcpPassiveOpens',
       'tcpAttemptFails', 'tcpEstabResets', 'tcpCurrEstab', 'tcpInSegs', 'tcpOutSegs', 'tcpRetransSegs',
       'tcpConnTable', 'tcpConnEntry', 'tcpConnState', 'tcpConnLocalAddress', 'tcpConnLocalPort',
       'tcpConnRemAddress', 'tcpConnRemPort', 'tcpInErrs', 'tcpOutRsts']
UDP = ['udpInDatagrams', 'udpNoPorts', 'udpInErrors', 'udpOutDatagrams', 'udpTable', 'udpEntry', 'udpLocalAddress',
       'udpLocalPort']
EGP = ['egpInMsgs', 'egpInErrors', 'egpOutMsgs', 'egpOutErrors', 'egpNeighTable', 'egpNeighEntry', 'egpNeighState',
       'egpNeighAddr', 'egpNeighAs', 'egpNeighInMsgs', 'egpNeighInErrs', 'egpNeighOutMsgs', 'egpNeighOutErrs',
       'egpNeighInErrMsgs', 'egpNeighOutErrMsgs', 'egpNeighStateUps', 'egpNeighStateDowns', 'egpNeighIntervalHello',
       'egpNeighIntervalPoll', 'egpNeighMode', 'egpNeighEventTrigger', 'egpAs']
SNMP = ['snmpInPkts', 'snmpOutPkts', 'snmpInBadVersions', 'snmpInBadCommunityNames', 'snmpInBadCommunityUses',
        'snmpInASNParseErrs', 'snmpInTooBigs', 'snmpInNoSuchNames', 'snmpInBadValues', 'snmpInReadOnlys',
        'snmpInGenErrs', 'snmpInTotalReqVars', 'snmpInTotalSetVars', 'snmpInGetRequests', 'snmpInGetNexts',
        'snmpInSetRequests', 'snmpInGetResponses', 'snmpInTraps', 'snmpOutTooBigs', 'snmpOutNoSuchNames',
        'snmpOutBadValues', 'snmpOutGenErrs', 'snmpOutGetRequests', 'snmpOutGetNexts', 'snmpOutSetRequests',
        'snmpOutGetResponses', 'snmpOutTraps']


def _mib_table(enable_name):
    t = {}
    t['mib-2'] = ('SNMPv2-SMI', 'mib-2')
    t['transmission'] = ('SNMPv2-SMI', 'transmission')
    t['DisplayString'] = ('SNMPv2-TC', 'DisplayString')
    t['system'] = ('SNMPv2-MIB', 'system')
    t['snmp'] = ('SNMPv2-MIB', 'snmp')
    t['interfaces'] = ('IF-MIB', 'interfaces')
    t['ip'] = ('IP-MIB', 'ip')
    t['icmp'] = ('IP-MIB', 'icmp')
    t['tcp'] = ('TCP-MIB', 'tcp')
    t['udp'] = ('UDP-MIB', 'udp')
    for s in SYSTEM + SNMP:
        t[s] = ('SNMPv2-MIB', s)
    t[enable_name] = ('SNMPv2-MIB', 'snmpEnableAuthenTraps')
    for s in IF:
        t[s] = ('IF-MIB', s)
    for s in IP + ICMP:
        t[s] = ('IP-MIB', s)
    for s in TCP:
        t[s] = ('TCP-MIB', s)
    for s in UDP:
        t[s] = ('UDP-MIB', s)
    return t


TABLE = {}
for _m in ('RFC1155-SMI', 'RFC1065-SMI'):
    TABLE[_m] = dict((n, ('SNMPv2-SMI', n)) for n in SMI_NODES)
    TABLE[_m].update(dict((k, ('SNMPv2-SMI', v)) for k, v in SMI_TYPES.items()))
    TABLE[_m]['OBJECT-TYPE'] = ('SNMPv2-SMI', 'OBJECT-TYPE')
TABLE['RFC-1212'] = {'OBJECT-TYPE': ('SNMPv2-SMI', 'OBJECT-TYPE')}
TABLE['RFC-1215'] = {'TRAP-TYPE': ('SNMPv2-SMI', None)}   # becomes a notification; any SNMPv2-SMI spelling
TABLE['RFC1213-MIB'] = _mib_table('snmpEnableAuthenTraps')
TABLE['RFC1213-MIB']['PhysAddress'] = ('SNMPv2-TC', 'PhysAddress')
TABLE['RFC1158-MIB'] = _mib_table('snmpEnableAuthTraps')
TABLE['RFC1158-MIB']['nullSpecific'] = ('SNMPv2-SMI', 'zeroDotZero')

V1_BASE = ('RFC1155-SMI', 'RFC1065-SMI', 'RFC-1212', 'RFC-1215', 'RFC1213-MIB', 'RFC1158-MIB')


def stay_pairs():
    """Symbols of MIB-II without an SMIv2 home (at, egp, ipRoute groups): they stay where they are - an import of one
    of them must survive compilation, from its own module or (RFC1158-MIB being obsoleted by RFC 1213) RFC1213-MIB."""
    out = []
    for m in ('RFC1213-MIB', 'RFC1158-MIB'):
        for sym in AT + EGP + IP_ROUTE:
            if m == 'RFC1158-MIB' and sym in ('ipRouteMetric5', 'ipRouteInfo', 'ipRouteTable'):
                continue     # not defined by RFC 1158 (its table is called ipRoutingTable)
            out.append((m, sym, None))
    return out


def pairs():
    out = []
    for m in sorted(TABLE):
        for s in sorted(TABLE[m]):
            out.append((m, s, TABLE[m][s]))
    return out
