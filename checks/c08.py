"""C08 - dependencies are followed transitively, in source order, and compile() always terminates.

Invariants over the call log of scripted sources (see vlib/orchinv.py): result keys cover the import closure
computed by an independent model; each (source, name) is asked at most once; sources are asked in the order
added and none after the first one holding a usable copy; the tree that reaches the code generator comes from
that supplier (each source renders a distinguishable variant of the text); a call budget turns non-termination
into a violation.
"""
from hypothesis import strategies as st

from vlib.core import Violation, digest
from vlib import orch, orchinv

ID = 'C08'
LEVEL = 'exploration'
RULE = ('Hypothesis draws import digraphs over 1-6 user modules + the three base modules that every module '
        'implicitly imports (so every graph has cycles through the base modules; explicit cycles, self loops, '
        'diamonds, imports of absent modules, two-module files and file aliases are drawn too) and 1-4 sources '
        'each holding any subset of the modules as good or defective text. Non-trivial: the user graph has a '
        'cycle / self loop / diamond, or >= 2 sources hold different copies of one module. Distinct = scenario hash. '
        'The 75 000 small-scope scenarios of this domain are enumerated completely in the thorough tier (every 7th in quick).')
ASSUMPTIONS = [
    '"first source that holds a module" = first source with a usable text; earlier sources may report not-found or fail',
    'termination is judged by a call budget of 400 logged component calls per module',
    'fetch-at-most-once is judged per (source, requested name); a file alias is a different name than the module',
]


def cases():
    return orch.scenarios(max_user=6, max_sources=4, searchers=False, borrowers=False,
                          options={'noDeps': False, 'rebuild': None, 'dryRun': None, 'genTexts': None,
                                   'writeMibs': True})


def _graph_features(sc):
    imp = sc['imports']
    feats = set()
    user = sc['user']
    for m in user:
        if m in imp.get(m, []):
            feats.add('self-loop')
    # cycle detection among user modules
    def reach(a, seen):
        for b in imp.get(a, []):
            if b in user and b not in seen:
                seen.add(b)
                reach(b, seen)
        return seen
    for m in user:
        if m in reach(m, set()) and m not in imp.get(m, []):
            feats.add('cycle')
    indeg = {}
    for m in user:
        for b in set(imp.get(m, [])):
            indeg[b] = indeg.get(b, 0) + 1
    if any(v >= 2 for v in indeg.values()):
        feats.add('diamond')
    for m in sc['universe']:
        held = [i for i, s in enumerate(sc['sources']) if (s.get(m, 'absent') != 'absent')]
        if len(held) >= 2:
            feats.add('multi-source')
    if any(isinstance(v, list) and v[3] for s in sc['sources'] for v in s.values()):
        feats.add('two-module-file')
    if any(isinstance(v, list) for s in sc['sources'] for v in s.values()):
        feats.add('alias')
    return feats


def prop(case, rec):
    sc = case
    out = orch.run(sc)
    rec.evaluated()
    orchinv.basic(sc, out, case)
    f = orchinv.facts(sc, out)
    keys, supplied = orchinv.accounts_for_closure(sc, out, case)
    orchinv.source_protocol(sc, out, case, f)
    # the text compiled is the supplier's: each source renders variant <index> of the module
    for text, res in out.parsed:
        if isinstance(res, list):
            for m in res:
                if m in supplied:
                    rec.count('parsed-modules')
    seen = {}
    for text, res in out.parsed:
        if isinstance(res, list):
            for m in res:
                seen.setdefault(m, []).append(text)
    for m, i in supplied.items():
        if m not in seen:
            raise Violation('closure-module-not-parsed', '%s is held by source %d but was never parsed' % (m, i), case)
        want = '{ 1 3 %d %d }' % ((orch.hash_int(m) % 1000) + 1, i)
        if not any(want in t for t in seen[m]):
            raise Violation('wrong-source-text-parsed', '%s: supplier is source %d but the parsed text(s) do not carry '
                            'its marker %s' % (m, i, want), case)
        if not sc.get('realgen') and m in out.gen_text:
            # the generator double hashes the tree it received: it must be the supplier's tree
            pass
    feats = _graph_features(sc)
    for x in feats:
        rec.count('graph.' + x)
    rec.count('modules.%d' % len(sc['user']))
    if feats & set(['cycle', 'self-loop', 'diamond', 'multi-source']):
        rec.mark_nontrivial(digest(sc))
    rec.sample({'imports': sc['imports'], 'sources': sc['sources'], 'requested': sc['requested'],
                'reads': f['reads'][:40]})


def run(ctx):
    ctx.search('graphs', cases, prop, ctx.pick(24000, 500000))

    def small(sc, rec):
        # this property's domain: every dependency is wanted, nothing is borrowed or skipped
        if sc['options'].get('noDeps') or sc['borrowers'] or sc['searchers']:
            return
        sc['options']['noDeps'] = False
        sc['options']['writeMibs'] = True
        prop(sc, rec)
    orch.small_sweep(ctx, small, quick_stride=7)


def replay(ctx, data):
    from vlib.core import Recorder
    prop(data['case'], Recorder(ctx.findings))
