"""C10 - up-to-date modules are not regenerated; rebuild, noDeps and stubs act as documented.

A (orchestration, scripted searchers + real StubSearcher): searchers are asked in the order added with the
source's mtime and the rebuild flag, stop at the first "fresh"; fresh => untouched, neither generated nor written;
no fresh answer => generated unless noDeps and not explicitly requested; rebuild does not override stub lists.
B (real AnyFileSearcher / PyFileSearcher / PyPackageSearcher on a real temp dir, enumerated completely):
NotModified <=> a regular file <exact name><listed ext> exists whose mtime >= the source mtime; otherwise
NotFound; rebuild => plain return.
"""
import itertools
import os
import shutil
import sys
import tempfile
import time

from hypothesis import strategies as st

from vlib.core import Violation, digest
from vlib import orch, orchinv

ID = 'C10'
LEVEL = 'exploration'
RULE = ('A: Hypothesis draws orchestration scenarios with 0-3 searchers (scripted doubles answering fresh / absent / '
        'plain return / error per module, honouring rebuild or not, and real StubSearchers with drawn module lists) x '
        'rebuild x noDeps; non-trivial = >= 2 searchers disagreeing on a module, or a stub/fresh answer under '
        'rebuild, or noDeps with an unrequested dependency. B: the complete lattice searcher kind x destination '
        'present/absent x mtime in {source-1, source, source+1} x decoys {same-named directory, other extension, '
        'other letter case, name with suffix} x extension lists x rebuild is enumerated on a real directory; every '
        'combination is one distinct case, non-trivial when an mtime is within 1 of the source or a decoy exists; kinds '
        'include a package imported from a ZIP archive, names include a mixed-case one. C: Hypothesis draws source and '
        'copy times with nanosecond parts, the source time is taken from a real FileReader; non-trivial when the source '
        'time has a sub-second part and the copy lies within 1.5 s of it.')
ASSUMPTIONS = [
    'B: modification time = st_mtime truncated to whole seconds, as the searchers read it (os.stat()[8])',
    'B: byte-compiled .pyc files are a separate class (finding D23) and are not part of the lattice',
    'the case-insensitive-name decoy is only meaningful on a case-sensitive filesystem (checked at run time)',
]


def cases():
    return orch.scenarios(borrowers=False, failures=False, max_user=4)


def cases_with_failures():
    return orch.scenarios(borrowers=True, failures=True, max_user=3)


def prop(case, rec):
    sc = case
    out = orch.run(sc)
    rec.evaluated()
    orchinv.basic(sc, out, case)
    f = orchinv.facts(sc, out)
    info = orchinv.searcher_protocol(sc, out, case, f)
    opts = sc['options']
    rec.count('rebuild.%s' % bool(opts.get('rebuild')))
    rec.count('noDeps.%s' % bool(opts.get('noDeps')))
    rec.count('searchers.%d' % len(sc['searchers']))
    nt = False
    for m in sc['universe']:
        answers = set()
        for s in sc['searchers']:
            if s.get('stub') is not None:
                answers.add('fresh' if m in s['stub'] else 'absent')
            else:
                answers.add(s['answers'].get(m, 'absent'))
        if len(answers) >= 2:
            nt = True
    if opts.get('rebuild') and info['fresh']:
        rec.count('fresh-under-rebuild')
        nt = True
    if opts.get('noDeps'):
        nt = True
    if nt:
        rec.mark_nontrivial(digest(sc))
    rec.sample({'searchers': sc['searchers'], 'options': opts,
                'result': dict((k, str(v)) for k, v in out.result.items())})


# ---------------------------------------------------------------------------
# B: real searchers


def _expect(files, name, exts, src_mtime, rebuild):
    """Reference: 'plain' | 'notmodified' | 'notfound'."""
    if rebuild:
        return 'plain'
    for ext in exts:
        ent = files.get(name + ext)
        if ent and ent[0] == 'file' and ent[1] >= src_mtime:
            return 'notmodified'
    return 'notfound'


def _call(searcher, name, mtime, rebuild):
    from pysmi import error
    try:
        searcher.fileExists(name, mtime, rebuild=rebuild)
        return 'plain'
    except error.PySmiFileNotModifiedError:
        return 'notmodified'
    except error.PySmiFileNotFoundError:
        return 'notfound'


def real_sweep(ctx):
    SRC = 1000000000   # even, after 1980: representable in a ZIP directory as well
    name = 'TEST-MIB'
    kinds = ['any.json', 'any.multi', 'py', 'pypkg', 'pypkg.zip']
    present = [None, SRC - 1, SRC, SRC + 1]
    decoys = [(), ('dir',), ('otherext',), ('lower',), ('suffix',), ('dir', 'otherext', 'lower', 'suffix'), ('emptyext',)]
    # for the multi-extension searcher also a copy under the *second* listed extension: absent / stale / fresh
    seconds = [None, SRC - 1, SRC + 1]
    combos = [c + (None,) for c in itertools.product(kinds, present, decoys, [False, True])]
    combos += [('any.multi', mt, (), rb, sec) for mt in present for rb in (False, True) for sec in seconds[1:]]
    # the exact module name, also when it is not all upper case (SNMPv2-MIB): (combo, name)
    combos = [(c, nm) for nm in ('TEST-MIB', 'TESTv2-Mib') for c in combos]

    def fn(rec, shard, nshards, seed, tier, extra):
        from pysmi.searcher.anyfile import AnyFileSearcher
        from pysmi.searcher.pyfile import PyFileSearcher
        from pysmi.searcher.pypackage import PyPackageSearcher
        base = tempfile.mkdtemp(prefix='c10b')
        probe = os.path.join(base, 'CaseProbe')
        open(probe, 'w').close()
        case_sensitive = not os.path.exists(os.path.join(base, 'caseprobe'))
        try:
            for n, ((kind, mt, decoy, rebuild, second), name) in enumerate(combos):
                if n % nshards != shard:
                    continue
                pkgname = 'c10pkg_%d_%d' % (shard, n)
                d = os.path.join(base, pkgname)
                os.makedirs(d)
                if kind == 'any.json':
                    exts = ['.json']
                elif kind == 'any.multi':
                    exts = ['.json', '.js', '']
                else:
                    exts = ['.py']
                files = {}

                def mk(fname, mtime, isdir=False):
                    p = os.path.join(d, fname)
                    if isdir:
                        os.makedirs(p)
                        files[fname] = ('dir', mtime)
                    else:
                        with open(p, 'w') as fh:
                            fh.write('x = 1\n')
                        files[fname] = ('file', mtime)
                    os.utime(p, (mtime, mtime))
                if mt is not None:
                    mk(name + exts[0], mt)
                if second is not None:
                    mk(name + exts[1], second)
                for dk in decoy:
                    if dk == 'dir':
                        if (name + exts[-1]) not in files and kind != 'pypkg.zip':
                            mk(name + exts[-1], SRC + 5, isdir=True)
                    elif dk == 'otherext':
                        mk(name + '.txt', SRC + 5)
                        mk(name + '.pyo_', SRC + 5)
                    elif dk == 'lower' and case_sensitive:
                        mk(name.lower() + exts[0], SRC + 5)
                        if name.upper() != name:
                            mk(name.upper() + exts[0], SRC + 5)
                    elif dk == 'suffix':
                        mk(name + '-OLD' + exts[0], SRC + 5)
                        mk('X' + name + exts[0], SRC + 5)
                    elif dk == 'emptyext' and kind != 'any.multi':
                        mk(name, SRC + 5)
                if kind == 'pypkg.zip':
                    # the package lives in a ZIP archive on sys.path (an "egg"); ZIP times have 2 s resolution
                    import zipfile
                    zpath = os.path.join(base, pkgname + '.zip')
                    with zipfile.ZipFile(zpath, 'w') as z:
                        z.writestr(zipfile.ZipInfo(pkgname + '/__init__.py', date_time=(2001, 1, 1, 0, 0, 0)), '')
                        for fname, (what, mtime) in sorted(files.items()):
                            if what == 'file':
                                files[fname] = ('file', mtime - mtime % 2)
                                z.writestr(zipfile.ZipInfo(pkgname + '/' + fname, date_time=time.gmtime(mtime)[:6]), 'x = 1\n')
                            else:
                                z.writestr(zipfile.ZipInfo(pkgname + '/' + fname + '/', date_time=(2001, 1, 1, 0, 0, 0)), '')
                    shutil.rmtree(d, ignore_errors=True)
                    sys.path.insert(0, zpath)
                    s = PyPackageSearcher(pkgname)
                elif kind.startswith('any'):
                    s = AnyFileSearcher(d).setOptions(exts=exts)
                elif kind == 'py':
                    s = PyFileSearcher(d)
                else:
                    open(os.path.join(d, '__init__.py'), 'w').close()
                    sys.path.insert(0, base)
                    s = PyPackageSearcher(pkgname)
                try:
                    got = _call(s, name, SRC, rebuild)
                except Exception as e:
                    raise Violation('searcher-raised', '%s: %r' % (kind, e), {'kind': kind, 'mtime': mt, 'decoys': list(decoy), 'rebuild': rebuild})
                finally:
                    if kind == 'pypkg':
                        sys.path.remove(base)
                        sys.modules.pop(pkgname, None)
                    elif kind == 'pypkg.zip':
                        sys.path.remove(zpath)
                        sys.modules.pop(pkgname, None)
                        sys.path_importer_cache.pop(zpath, None)
                want = _expect(files, name, exts, SRC, rebuild)
                rec.evaluated()
                rec.count('kind.' + kind)
                rec.count('answer.' + got)
                case = {'kind': kind, 'name': name, 'dest_mtime_minus_source': None if mt is None else mt - SRC, 'decoys': list(decoy),
                        'rebuild': rebuild, 'exts': exts, 'files': sorted(files),
                        'second_ext_mtime_minus_source': None if second is None else second - SRC}
                if got != want:
                    raise Violation('searcher-answer', '%r: answered %s, expected %s' % (case, got, want), case)
                if mt is not None or decoy:
                    rec.mark_nontrivial(digest(case))
                if n % 97 == 0:
                    rec.sample(case)
                shutil.rmtree(d, ignore_errors=True)
        finally:
            shutil.rmtree(base, ignore_errors=True)
        return None
    ctx.parallel('real-searchers', fn)
    ctx.extra_cov['exhaustive_subdomain'] = 'B: %d combinations (searcher kind x mtime x decoys x rebuild)' % len(combos)


# ---------------------------------------------------------------------------
# C: source time as a real reader reports it -> real searcher (sub-second file times)


@st.composite
def reader_searcher_cases(draw):
    sec = 1000000000 + draw(st.integers(0, 1000))
    src_ns = draw(st.sampled_from((0, 1, 500000000, 999999999, 250000000, 700000000)))
    # destination relative to the source: same second before / after, neighbouring seconds, far away
    delta_ns = draw(st.one_of(st.sampled_from((0, 1, -1, 100000000, -100000000, 999999999, -999999999, 1000000000, -1000000000)),
                              st.integers(-2500000000, 2500000000)))
    return {'src_s': sec, 'src_ns': src_ns, 'delta_ns': delta_ns, 'searcher': draw(st.sampled_from(('any.json', 'py'))),
            'reader': draw(st.sampled_from(('file', 'file.recursive')))}


def reader_searcher_prop(case, rec):
    from pysmi.reader.localfile import FileReader
    from pysmi.searcher.anyfile import AnyFileSearcher
    from pysmi.searcher.pyfile import PyFileSearcher
    base = tempfile.mkdtemp(prefix='c10c')
    try:
        srcdir = os.path.join(base, 'src', 'sub') if case['reader'] == 'file.recursive' else os.path.join(base, 'src')
        dst = os.path.join(base, 'dst')
        os.makedirs(srcdir)
        os.makedirs(dst)
        sp = os.path.join(srcdir, 'TEST-MIB.txt')
        with open(sp, 'w') as fh:
            fh.write('TEST-MIB DEFINITIONS ::= BEGIN END\n')
        src_total = case['src_s'] * 1000000000 + case['src_ns']
        os.utime(sp, ns=(src_total, src_total))
        dst_total = src_total + case['delta_ns']
        ext = '.json' if case['searcher'] == 'any.json' else '.py'
        dp = os.path.join(dst, 'TEST-MIB' + ext)
        with open(dp, 'w') as fh:
            fh.write('x = 1\n')
        os.utime(dp, ns=(dst_total, dst_total))
        # what the filesystem really stored
        src_total = os.stat(sp).st_mtime_ns
        dst_total = os.stat(dp).st_mtime_ns
        reader = FileReader(os.path.join(base, 'src'), recursive=True)
        info, text = reader.getData('TEST-MIB')
        s = AnyFileSearcher(dst).setOptions(exts=['.json']) if case['searcher'] == 'any.json' else PyFileSearcher(dst)
        got = _call(s, 'TEST-MIB', info.mtime, False)
        rec.evaluated()
        if dst_total >= src_total:
            want = ('notmodified',)        # the copy is not older than the source
        elif dst_total // 1000000000 < src_total // 1000000000:
            want = ('notfound',)           # older by whole seconds
        else:
            want = ('notmodified', 'notfound')   # older within the same second: below the documented (1 s) resolution
        rec.count('reader-searcher.%s' % ('same-second' if dst_total // 1000000000 == src_total // 1000000000 else 'other-second'))
        rec.count('reader-searcher.answer.' + got)
        if got not in want:
            raise Violation('searcher-answer', 'source mtime %d.%09d (reader reports %r), copy mtime %d.%09d: answered %s, expected %s' % (
                src_total // 1000000000, src_total % 1000000000, info.mtime, dst_total // 1000000000, dst_total % 1000000000,
                got, ' or '.join(want)), case)
        if src_total % 1000000000 and abs(dst_total - src_total) < 1500000000:
            rec.mark_nontrivial(digest(['rs', case]))
    finally:
        shutil.rmtree(base, ignore_errors=True)


def probes(ctx):
    def p(rec):
        # D23: a fresh byte-compiled file written by this interpreter next to nothing else
        import py_compile
        from pysmi.searcher.pyfile import PyFileSearcher
        d = tempfile.mkdtemp(prefix='c10p')
        try:
            src = os.path.join(d, 'X.py')
            with open(src, 'w') as fh:
                fh.write('x = 1\n')
            os.utime(src, (2000000, 2000000))
            py_compile.compile(src, cfile=os.path.join(d, 'X.pyc'), doraise=True)
            os.unlink(src)
            got = _call(PyFileSearcher(d), 'X', 1000000, False)
            ctx.probe('D23', got != 'notmodified')
        finally:
            shutil.rmtree(d, ignore_errors=True)
        rec.evaluated()
    ctx.inline('probe', p)


def run(ctx):
    ctx.search('searchers', cases, prop, ctx.pick(16000, 300000))
    ctx.search('searchers+failures', cases_with_failures, prop, ctx.pick(8000, 150000))
    real_sweep(ctx)
    ctx.search('reader-searcher', reader_searcher_cases, reader_searcher_prop, ctx.pick(1600, 30000))
    probes(ctx)


def replay(ctx, data):
    from vlib.core import Recorder
    case = data['case']
    if 'delta_ns' in case:
        reader_searcher_prop(case, Recorder(ctx.findings))
    elif 'universe' in case:
        prop(case, Recorder(ctx.findings))
    else:
        raise Violation(data['facet'], 'real-searcher case: re-run the check (the lattice is enumerated completely)', case)
