"""C17 - grammar relaxations only add accepted inputs and mean what they say.

Oracles: (1) for option sets D <= D' (both buildable) a text legal under D parses to identical trees under D, D'
and equals the model's expected tree; (2) each documented breakage, injected at every applicable position of a
well-formed module, parses - with only the relevant option on - to the tree of the corrected text (identifiers
as written); (3) an unknown option name is rejected with PySmiError.
"""
import copy
import itertools

from hypothesis import strategies as st

from vlib.core import Violation, digest
from vlib import mibgen

ID = 'C17'
LEVEL = 'exploration'
RULE = ('(1) Hypothesis draws a well-formed module (all clause kinds, SMIv2 or SMIv1) and a pair D <= D\' of '
        'buildable subsets of the nine relaxation options (the three shipped dialects, every buildable single '
        'option and random subsets; supportIndex only together with supportSmiV1Keywords); non-trivial when '
        'D != D\' and the module has >= 4 clause kinds. (2) for a drawn option the documented breakage is applied '
        'at every applicable site of the module, one site per evaluation (each (module, option, site) is distinct '
        'and non-trivial). (3) unknown option names, 1-3 at a time. (4) grammar-aware mutants of legal texts under D <= D\': '
        'non-trivial when the smaller dialect accepts the mutant and D != D\'. Options are named in drawn order. '
        'Distinct = hash of text + option sets.')
ASSUMPTIONS = [
    'texts never use MAX or NetworkAddress as plain identifiers (the words the SMIv1 keyword set reserves)',
    'a lone supportIndex cannot be built (the grammar it adds needs the NetworkAddress token) and is not a case',
    'the tree of the corrected text is the model-side expected_tree with identifiers as written in the broken text',
]

OPTIONS = ('supportSmiV1Keywords', 'supportIndex', 'commaAtTheEndOfImport', 'commaAtTheEndOfSequence',
           'mixOfCommasAndSpaces', 'uppercaseIdentifier', 'lowcaseIdentifier', 'curlyBracesAroundEnterpriseInTrap',
           'noCells')

_parsers = {}


def buildable(opts):
    return 'supportIndex' not in opts or 'supportSmiV1Keywords' in opts


def parser(opts):
    from pysmi.parser.smi import parserFactory
    key = tuple(opts)     # the order in which the options are named is part of the case: it must not matter
    if key not in _parsers:
        if len(_parsers) > 96:
            _parsers.clear()
        kw = {}
        for o in key:
            kw[o] = True
        _parsers[key] = parserFactory(**kw)()
    p = _parsers[key]
    p.reset()
    return p


def parse(opts, text):
    """('ok', normalized tree) | ('err', exception); foreign exceptions propagate as violations by the caller."""
    from pysmi import error
    try:
        return 'ok', mibgen.normalize_tree(parser(opts).parse(text))
    except error.PySmiLexerError as e:
        return 'err', e


PROFILE = mibgen.profile(dialects=('v2', 'v2', 'v1'), modules=(1, 1), decls=(2, 12), texts='short',
                         compl_object_first=True, defval_empty_string=True)


@st.composite
def option_sets(draw):
    r = draw(st.integers(0, 5))
    if r == 0:
        big = set(OPTIONS)
    elif r == 1:
        big = set(['supportSmiV1Keywords', 'supportIndex'])
    else:
        big = set(draw(st.lists(st.sampled_from(OPTIONS), max_size=6)))
    if not buildable(big):
        big.add('supportSmiV1Keywords')
    small = set(o for o in sorted(big) if draw(st.booleans()))
    if not buildable(small):
        small.discard('supportIndex')
    return sorted(small), sorted(big)


@st.composite
def lattice_cases(draw):
    mset = draw(mibgen.module_sets(PROFILE))
    small, big = draw(option_sets())
    m = mset['modules'][0]
    if m['dialect'] == 'v1':
        for s_ in (small, big):
            if 'supportSmiV1Keywords' not in s_:
                s_.append('supportSmiV1Keywords')
    toks, _ = mibgen.module_tokens(m)
    small, big = sorted(set(small)), sorted(set(big))
    if draw(st.booleans()):
        # a dialect is a set of options: naming them in another order is the same dialect
        small, big = list(draw(st.permutations(small))), list(draw(st.permutations(big)))
    return {'mod': m, 'small': small, 'big': big, 'seps': draw(mibgen.layouts(len(toks)))}


def lattice_prop(case, rec):
    m = case['mod']
    toks, _ = mibgen.module_tokens(m)
    text, _ = mibgen.join_tokens(toks, case['seps'])
    exp = mibgen.normalize_tree([mibgen.expected_tree(m)])
    results = []
    for opts in (case['small'], case['big']):
        try:
            st_, res = parse(opts, text)
        except Exception as e:
            raise Violation('foreign-exception', '%r under %r' % (e, opts), case, {'text': text})
        rec.evaluated()
        if st_ != 'ok':
            raise Violation('legal-text-rejected', 'options %r: %s' % (opts, res), case, {'text': text})
        results.append(res)
    if results[0] != results[1]:
        raise Violation('superset-changes-tree', 'options %r vs %r' % (case['small'], case['big']), case, {'text': text})
    if results[0] != exp:
        raise Violation('tree-differs-from-model', 'options %r' % (case['small'],), case, {'text': text})
    rec.count('pair.%s' % ('proper' if sorted(case['small']) != sorted(case['big']) else 'equal'))
    if case['small'] != sorted(case['small']) or case['big'] != sorted(case['big']):
        rec.count('pair.options-named-in-permuted-order')
    rec.count('dialect.' + m['dialect'])
    if sorted(case['small']) != sorted(case['big']) and len(mibgen.kinds_in(m)) >= 4:
        rec.mark_nontrivial(digest([text, case['small'], case['big']]))
    rec.sample({'text': text[:500], 'D': case['small'], "D'": case['big']})


# ---------------------------------------------------------------------------
# breakages


def sites(mod, option):
    """All applicable injection sites of `option` in the module: list of opaque descriptors."""
    out = []
    if option == 'commaAtTheEndOfImport':
        out = [('imp', i) for i in range(len(mod['imports']))]
    elif option == 'commaAtTheEndOfSequence':
        out = [('seq', i) for i, d in enumerate(mod['decls']) if d['k'] == 'seq']
    elif option in ('mixOfCommasAndSpaces', 'uppercaseIdentifier'):
        for i, d in enumerate(mod['decls']):
            for path, syn in _syntaxes(d):
                sub = syn.get('sub')
                if sub and sub[0] == 'enum':
                    if option == 'uppercaseIdentifier':
                        out += [('enum-upper', i, path, j) for j in range(len(sub[1]))]
                    else:
                        out += [('enum-drop', i, path, j) for j in range(1, len(sub[1]))]
                        out.append(('enum-trail', i, path, 0))
    elif option == 'lowcaseIdentifier':
        out = [('nt', i) for i, d in enumerate(mod['decls']) if d['k'] == 'nt']
    elif option == 'curlyBracesAroundEnterpriseInTrap':
        out = [('tt', i) for i, d in enumerate(mod['decls']) if d['k'] == 'tt']
    elif option == 'noCells':
        for i, d in enumerate(mod['decls']):
            if d['k'] == 'ac':
                for si, s in enumerate(d['supports']):
                    for vi, v in enumerate(s['variations']):
                        out.append(('cells', i, si, vi))
    elif option == 'supportIndex':
        for i, d in enumerate(mod['decls']):
            if d['k'] == 'ot' and d['index']:
                out += [('index', i, j) for j in range(len(d['index']))]
    elif option == 'supportSmiV1Keywords':
        for i, d in enumerate(mod['decls']):
            if d['k'] == 'ot' and d['role'] in ('scalar', 'column') and not d.get('defval'):
                out.append(('netaddr', i))
    return out


def _syntaxes(d):
    if isinstance(d.get('syntax'), dict):
        yield ('syntax',), d['syntax']
    if d['k'] == 'mc':
        for ci, c in enumerate(d['modules']):
            for ei, e in enumerate(c['compl']):
                if e['c'] == 'object':
                    for key in ('syntax', 'wsyntax'):
                        if e.get(key):
                            yield ('modules', ci, 'compl', ei, key), e[key]


def _at(d, path):
    for p in path:
        d = d[p]
    return d


def inject(mod, site):
    m = copy.deepcopy(mod)
    kind = site[0]
    if kind == 'imp':
        m['import_trailing_comma'] = [site[1]]
    elif kind == 'seq':
        m['decls'][site[1]]['trailing_comma'] = True
    elif kind in ('enum-upper', 'enum-drop', 'enum-trail'):
        syn = _at(m['decls'][site[1]], site[2])
        sub = syn['sub']
        if kind == 'enum-upper':
            lab = sub[1][site[3]][0]
            new = lab[0].upper() + lab[1:]
            if new in mibgen.RESERVED or new in mibgen.FORBIDDEN or new.startswith(('MACRO', 'EXPORTS', 'CHOICE')):
                new = 'Q' + lab
            sub[1][site[3]][0] = new
            d = m['decls'][site[1]]
            dv = d.get('defval')
            if dv and dv.get('f') == 'enum' and dv['label'] == lab:
                d['defval'] = None
        elif kind == 'enum-drop':
            syn['sub'] = [sub[0], sub[1], {'drop_comma': [site[3]]}]
        else:
            syn['sub'] = [sub[0], sub[1], {'trailing_comma': True}]
    elif kind == 'nt':
        d = m['decls'][site[1]]
        d['name'] = d['name'][0].upper() + d['name'][1:]
        if d['name'] in mibgen.RESERVED or d['name'] in mibgen.FORBIDDEN or d['name'].startswith(('MACRO', 'EXPORTS', 'CHOICE')):
            d['name'] = 'Q' + d['name']
    elif kind == 'tt':
        m['decls'][site[1]]['curly'] = True
    elif kind == 'cells':
        m['decls'][site[1]]['supports'][site[2]]['variations'][site[3]]['creation'] = []
    elif kind == 'index':
        d = m['decls'][site[1]]
        which = ('INTEGER', 'OCTET STRING', 'IpAddress', 'NetworkAddress')[(site[1] + site[2]) % 4]
        d['index'][site[2]] = [0, which]
    elif kind == 'netaddr':
        d = m['decls'][site[1]]
        d['syntax'] = {'base': 'NetworkAddress', 'sub': None, 'tag': None}
    return m


NEEDS = {'supportIndex': ('supportSmiV1Keywords', 'supportIndex')}
SITE_PROFILES = {
    'noCells': mibgen.profile(dialects=('v2',), modules=(1, 1), decls=(4, 12), texts='short',
                              kinds=('scalar', 'og', 'ac', 'ac', 'value')),
    'curlyBracesAroundEnterpriseInTrap': mibgen.profile(dialects=('v1',), modules=(1, 1), decls=(2, 8), texts='short',
                                                        kinds=('tt', 'tt', 'scalar', 'value')),
    'lowcaseIdentifier': mibgen.profile(dialects=('v2',), modules=(1, 1), decls=(2, 8), texts='short',
                                        kinds=('nt', 'nt', 'scalar', 'value')),
    'commaAtTheEndOfSequence': mibgen.profile(dialects=('v2', 'v1'), modules=(1, 1), decls=(4, 12), texts='short',
                                              kinds=('table', 'scalar', 'value')),
    'supportIndex': mibgen.profile(dialects=('v1',), modules=(1, 1), decls=(4, 12), texts='short',
                                   kinds=('table', 'scalar', 'value')),
    'mixOfCommasAndSpaces': mibgen.profile(dialects=('v2', 'v1'), modules=(1, 1), decls=(3, 10), texts='short',
                                           kinds=('scalar', 'type', 'table', 'mc', 'og')),
    'uppercaseIdentifier': mibgen.profile(dialects=('v2', 'v1'), modules=(1, 1), decls=(3, 10), texts='short',
                                          kinds=('scalar', 'type', 'table')),
}


@st.composite
def breakage_cases(draw):
    option = draw(st.sampled_from(OPTIONS))
    prof = SITE_PROFILES.get(option, PROFILE)
    mset = draw(mibgen.module_sets(prof))
    extra = [o for o in OPTIONS if draw(st.booleans())]
    return {'mod': mset['modules'][0], 'option': option, 'extra': list(draw(st.permutations(extra)))}


def breakage_prop(case, rec):
    from pysmi import error
    m = case['mod']
    option = case['option']
    need = set(NEEDS.get(option, (option,)))
    if m['dialect'] == 'v1':
        need.add('supportSmiV1Keywords')
    on = sorted(need)
    # the option among other relaxations, named before or after them
    others = [o for o in case['extra'] if o not in need and buildable(need | set([o]))]
    if 'supportIndex' in others and 'supportSmiV1Keywords' not in need | set(others):
        others.remove('supportIndex')
    on_first, on_last = sorted(need) + others, others + sorted(need)
    off = sorted(need - set([option]))
    if not buildable(off):
        off = sorted(set(off) - set(['supportIndex']))
    all_sites = sites(m, option)
    rec.count('option.%s.modules' % option)
    for site in all_sites:
        broken = inject(m, site)
        text = mibgen.render_simple(broken)
        exp = mibgen.normalize_tree([mibgen.expected_tree(broken)])
        for opts in ((on, on_first, on_last) if others else (on,)):
            try:
                st_, res = parse(opts, text)
            except Exception as e:
                raise Violation('foreign-exception', '%r under %r' % (e, opts), case, {'text': text, 'site': site})
            rec.evaluated()
            if st_ != 'ok':
                raise Violation('documented-construct-rejected', 'option %s on (%r), site %r: %s' % (
                    option, opts, site, res), case, {'text': text, 'site': list(site)})
            if res != exp:
                raise Violation('relaxed-tree-differs', 'option %s, site %r' % (option, site), case,
                                {'text': text, 'site': list(site), 'got': res, 'expected': exp})
        rec.count('option.%s.sites' % option)
        rec.mark_nontrivial(digest([text, option]))
        try:
            st_, res = parse(off, text)
            rec.count('without-option.%s.%s' % (option, 'rejected' if st_ == 'err' else 'accepted'))
        except Exception as e:
            raise Violation('foreign-exception', '%r under %r' % (e, off), case, {'text': text})
        if len(all_sites) and site == all_sites[0]:
            rec.sample({'option': option, 'site': list(site), 'text': text[:500]})


# ---------------------------------------------------------------------------
# differential over texts OUTSIDE the generator's model: grammar-aware mutants, accepted or not


TYPE_WORDS = ('INTEGER', 'Integer32', 'Unsigned32', 'Counter32', 'Gauge32', 'Counter64', 'TimeTicks', 'IpAddress', 'Opaque',
              'STRING', 'IDENTIFIER', 'BITS', 'Counter', 'Gauge', 'NetworkAddress')
GROUP_POOL = (['(', 'SIZE', '(', '0', '..', '8', ')', ')'], ['(', '0', '..', '7', ')'], ['(', '-1', '|', '3', '..', '4', ')'],
              ['{', 'a', '(', '1', ')', ',', 'b', '(', '2', ')', '}'], ['(', 'SIZE', '(', '4', ')', ')'], ['{', 'x', '}'], [','],
              ['DESCRIPTION', '"d"'], ['STATUS', 'current'], ['IMPLIED'])


MUTANT_PROFILE = mibgen.profile(dialects=('v2', 'v2', 'v1'), modules=(1, 1), decls=(3, 10), texts='short',
                                kinds=('table', 'table', 'scalar', 'type', 'value', 'og', 'typefam'))


def _sequence_member_types(toks):
    """Positions of the type tokens inside SEQUENCE { name Type, ... } blocks."""
    out = []
    i = 0
    while i < len(toks) - 1:
        if toks[i] == 'SEQUENCE' and toks[i + 1] == '{':
            j = i + 2
            while j < len(toks) and toks[j] != '}':
                if isinstance(toks[j], str) and (toks[j] in TYPE_WORDS or toks[j][:1].isupper()) and toks[j] not in ('OCTET', 'OBJECT'):
                    out.append(j)
                j += 1
            i = j
        i += 1
    return out


@st.composite
def mutant_cases(draw):
    mset = draw(mibgen.module_sets(MUTANT_PROFILE if draw(st.booleans()) else PROFILE))
    m = mset['modules'][0]
    small, big = draw(option_sets())
    if m['dialect'] == 'v1':
        for s_ in (small, big):
            if 'supportSmiV1Keywords' not in s_:
                s_.append('supportSmiV1Keywords')
    toks, _ = mibgen.module_tokens(m)
    n = len(toks)
    muts = []
    for i in range(1 if draw(st.integers(0, 4)) else 2):
        kind = draw(st.sampled_from(('group-after-type',) * 6 + ('group-anywhere', 'delete', 'duplicate', 'replace')))
        if kind == 'group-after-type':
            pos = [k for k, t in enumerate(toks) if isinstance(t, str) and (t in TYPE_WORDS or (t[:1].isupper() and '-' not in t and t.isalnum()))]
            seqpos = _sequence_member_types(toks)
            if seqpos and draw(st.booleans()):
                pos = seqpos      # the abbreviated syntaxes of SEQUENCE members have grammar rules of their own
            if not pos:
                continue
            muts.append(['group', draw(st.sampled_from(pos)) + 1, draw(st.integers(0, 4))])
        elif kind == 'group-anywhere':
            muts.append(['group', draw(st.integers(1, n - 1)), draw(st.integers(0, len(GROUP_POOL) - 1))])
        elif kind == 'replace':
            muts.append(['replace', draw(st.integers(0, n - 1)), draw(st.integers(0, n - 1))])
        else:
            muts.append([kind, draw(st.integers(0, n - 1))])
    return {'mod': m, 'small': sorted(set(small)), 'big': sorted(set(big)), 'muts': muts}


def mutant_prop(case, rec):
    m = case['mod']
    toks, _ = mibgen.module_tokens(m)
    toks = list(toks)
    for mu in sorted(case['muts'], key=lambda x: -x[1]):
        if mu[0] == 'group':
            toks[mu[1]:mu[1]] = GROUP_POOL[mu[2]]
        elif mu[0] == 'delete':
            del toks[mu[1]]
        elif mu[0] == 'duplicate':
            toks.insert(mu[1], toks[mu[1]])
        elif mu[0] == 'replace':
            toks[mu[1]] = toks[min(mu[2], len(toks) - 1)]
    text, _ = mibgen.join_tokens(toks, mibgen.canonical_layout(toks))
    res = []
    for opts in (case['small'], case['big']):
        try:
            res.append(parse(opts, text))
        except Exception as e:
            raise Violation('foreign-exception', '%r under %r' % (e, opts), case, {'text': text})
        rec.evaluated()
    (s1, r1), (s2, r2) = res
    rec.count('mutant.small-%s.big-%s' % (s1, s2))
    if s1 == 'ok':
        # words the larger dialect reserves excuse a difference
        v1words = ('Counter', 'Gauge', 'NetworkAddress', 'ACCESS', 'MAX', 'TRAP-TYPE', 'ENTERPRISE', 'VARIABLES')
        excused = ('supportSmiV1Keywords' in case['big'] and 'supportSmiV1Keywords' not in case['small']
                   and any(w in toks for w in v1words))
        if s2 != 'ok' and not excused:
            raise Violation('superset-rejects-accepted-text', 'accepted under %r, rejected under %r: %s' % (
                case['small'], case['big'], r2), case, {'text': text})
        if s2 == 'ok' and r1 != r2 and not excused:
            raise Violation('superset-changes-tree', 'mutated text: %r vs %r' % (case['small'], case['big']), case, {'text': text})
        if sorted(case['small']) != sorted(case['big']):
            rec.mark_nontrivial(digest([text, case['small'], case['big']]))
            if len(rec.samples) < 14 and any(x[0] == 'group' for x in case['muts']):
                rec.sample({'mutated-text-accepted-by-both': text[:400], 'D': case['small'], "D'": case['big']})


def misc(ctx):
    def p(rec):
        from pysmi.parser.smi import parserFactory
        from pysmi import error
        for name in ('supportFoo', 'commaAtTheEndOfImports', 'SupportIndex', 'x', 'noCell', 'supportsmiv1keywords',
                     'lowcaseidentifier', '', 'relaxed', 'tempdir'):
            try:
                parserFactory(**{name: True})
            except error.PySmiError:
                pass
            except Exception as e:
                raise Violation('unknown-option-foreign-exception', '%s: %r' % (name, e), {'option': name})
            else:
                raise Violation('unknown-option-accepted', name, {'option': name})
            rec.evaluated()
            rec.mark_nontrivial(digest(['unknown', name]))
        # several unknown names at once, alone or among known ones, named before or after them
        known_sets = [(), ('commaAtTheEndOfImport',), ('supportSmiV1Keywords', 'supportIndex'), ('noCells', 'lowcaseIdentifier')]
        pool = ('supportFoo', 'bogusA', 'bogusB', 'commaAtTheEndOfImports', 'x')
        for r in (1, 2, 3):
            for unk in itertools.combinations(pool, r):
                for known in known_sets:
                    for first in (True, False):
                        kw = {}
                        for o in (unk + known) if first else (known + unk):
                            kw[o] = True
                        case = {'options': list(kw)}
                        try:
                            parserFactory(**kw)
                        except error.PySmiError:
                            pass
                        except Exception as e:
                            raise Violation('unknown-option-foreign-exception', '%r: %r' % (list(kw), e), case)
                        else:
                            raise Violation('unknown-option-accepted', repr(list(kw)), case)
                        rec.evaluated()
                        rec.mark_nontrivial(digest(['unknown', list(kw)]))
        # every buildable subset can actually be built (384) - thorough only builds them all
        n = 0
        for r in range(len(OPTIONS) + 1):
            for combo in itertools.combinations(OPTIONS, r):
                if buildable(set(combo)):
                    n += 1
        rec.count('buildable-subsets', n)
    ctx.inline('misc', p)


def all_subsets(ctx):
    """Thorough: a fixed corpus of generated texts under *every* buildable option subset."""
    subsets = [c for r in range(len(OPTIONS) + 1) for c in itertools.combinations(OPTIONS, r) if buildable(set(c))]

    def fn(rec, shard, nshards, seed, tier, extra):
        import hypothesis
        from hypothesis import settings, given, HealthCheck
        corpus = []

        @hypothesis.seed(seed * 31 + 7)
        @settings(max_examples=12, database=None, deadline=None, suppress_health_check=list(HealthCheck))
        @given(mibgen.module_sets(PROFILE))
        def collect(ms):
            corpus.append(ms['modules'][0])
        collect()
        for i in range(shard, len(subsets), nshards):
            opts = subsets[i]
            for m in corpus:
                if m['dialect'] == 'v1' and 'supportSmiV1Keywords' not in opts:
                    continue
                text = mibgen.render_simple(m)
                st_, res = parse(opts, text)
                rec.evaluated()
                if st_ != 'ok' or res != mibgen.normalize_tree([mibgen.expected_tree(m)]):
                    raise Violation('subset-sweep', 'options %r: %r' % (opts, res if st_ != 'ok' else 'tree differs'),
                                    {'mod': m, 'small': list(opts), 'big': list(opts),
                                     'seps': mibgen.canonical_layout(mibgen.module_tokens(m)[0])}, {'text': text})
                rec.mark_nontrivial(digest([text, opts]))
        return None
    ctx.parallel('all-subsets', fn)


def run(ctx):
    ctx.search('lattice', lattice_cases, lattice_prop, ctx.pick(3000, 60000))
    ctx.search('breakage', breakage_cases, breakage_prop, ctx.pick(2400, 40000))
    ctx.search('mutants', mutant_cases, mutant_prop, ctx.pick(6000, 200000))
    misc(ctx)
    if ctx.tier == 'thorough':
        all_subsets(ctx)


def replay(ctx, data):
    from vlib.core import Recorder
    rec = Recorder(ctx.findings)
    case = data['case']
    if 'muts' in case:
        mutant_prop(case, rec)
    elif 'option' in case and 'mod' in case:
        breakage_prop(case, rec)
    elif 'mod' in case:
        lattice_prop(case, rec)
