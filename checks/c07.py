"""C07 - compile() accounts for every module; statuses match effects; errors are contained.

Scripted doubles for readers / searchers / borrowers / writer / code generator around the real parser and
symbol-table generator; invariants over (scenario, call log, result) - see vlib/orchinv.py.
"""
import copy

from hypothesis import strategies as st

from vlib.core import Violation, digest
from vlib import orch, orchinv

ID = 'C07'
LEVEL = 'exploration'
RULE = ('Hypothesis draws orchestration scenarios: 1-4 user modules + the three implicitly imported base modules, '
        'any import digraph (cycles, self loops, imports of a module nobody holds), 1-3 sources with an outcome per '
        '(source, module) in {absent, reader error, good, lexical / syntax / truncated / semantic defect, empty, '
        'comment-only}, file aliases and two-module files, code generator and writer failures, 0-3 searchers '
        '(doubles and StubSearcher), 0-3 borrowers, all compile options. Non-trivial: >= 1 injected failure and '
        '>= 1 module still built, or two sources disagreeing on a module. Distinct = scenario hash. A quarter of the '
        'scenarios first makes 1-2 other compile() calls on the same compiler. Small scope: 900 000 scenarios (2 user '
        'modules x 5 graphs x 5 outcomes per (source, module) x 2 sources x requested set x codegen / writer failure x '
        'borrower x ignoreErrors x noDeps x searcher) enumerated completely in the thorough tier, every 61st in quick.')
ASSUMPTIONS = [
    'failures are signalled through PySmiError subclasses or are defects of the MIB text (the statement\'s scope)',
    'a requested file name is accounted for under the module name(s) it holds when a usable source exists',
    'a module is "usable" from the first source holding a good text; earlier sources may be absent or failing',
]


def cases():
    return orch.scenarios()


def _nontrivial(sc, out, f):
    bad = False
    for s in sc['sources']:
        for k, v in s.items():
            oc = v[2] if isinstance(v, list) else v
            if oc not in ('good', 'absent'):
                bad = True
    bad = bad or bool(sc['codegen']) or bool(sc['writer'])
    disagree = False
    for m in sc['universe']:
        ocs = set((v[m][2] if isinstance(v.get(m), list) else v.get(m, 'absent')) for v in sc['sources'])
        if len(ocs - set(['absent'])) >= 2:
            disagree = True
    return (bad and bool(f['gen_returned'])) or disagree


def prop(case, rec):
    sc = case
    out = orch.run(sc)
    rec.evaluated()
    orchinv.basic(sc, out, case)
    f = orchinv.facts(sc, out)
    for v in out.result.values():
        rec.count('status.' + str(v))
    rec.count('sources.%d' % len(sc['sources']))
    if sc.get('realgen'):
        rec.count('real-JsonCodeGen')
    orchinv.accounts_for_closure(sc, out, case)
    orchinv.status_matches_effects(sc, out, case, f)
    orchinv.terminal_statuses(sc, out, case, f)
    if _nontrivial(sc, out, f):
        rec.mark_nontrivial(digest(sc))
    rec.sample({'scenario': sc, 'result': dict((k, str(v)) for k, v in out.result.items())})
    return out, f


def metamorphic_prop(case, rec):
    """One bad MIB never drops another: healing a bad module changes nothing for modules that do not import it."""
    if any(isinstance(v, list) for src in case['sources'] for v in src.values()):
        return   # file aliases / multi-module files make "the same module, healed" ill-defined
    sc = copy.deepcopy(case)
    sc['options']['ignoreErrors'] = True
    sc['options']['writeMibs'] = True
    sc['borrowers'] = []
    sc['searchers'] = []
    out1 = orch.run(sc)
    orchinv.basic(sc, out1, case)
    rec.evaluated()
    bad = [m for m in sc['user'] if orch.supplier(sc, m)[0] is None or sc['codegen'].get(m) == 'fail']
    if not bad:
        return
    victim = bad[0]
    healed = copy.deepcopy(sc)
    healed['sources'][0][victim] = 'good'
    healed['codegen'].pop(victim, None)
    out2 = orch.run(healed)
    orchinv.basic(healed, out2, case)
    # modules that do not transitively import the victim
    def reach(m, seen):
        for i in sc['imports'].get(m, []):
            if i not in seen:
                seen.add(i)
                reach(i, seen)
        return seen
    f1, f2 = orchinv.facts(sc, out1), orchinv.facts(healed, out2)
    for m in sc['user']:
        if m == victim or victim in reach(m, set()):
            continue
        if m not in out1.result or m not in out2.result:
            continue   # only reachable through the healed module
        s1, s2 = out1.result.get(m), out2.result.get(m)
        if str(s1) != str(s2):
            raise Violation('bad-module-changes-unrelated-status', '%s: %r with %s bad, %r with it healed' % (m, s1, victim, s2), case)
        d1 = [p['data'] for p in f1['put'].get(m, [])]
        d2 = [p['data'] for p in f2['put'].get(m, [])]
        if d1 != d2 and not sc.get('realgen'):
            raise Violation('bad-module-changes-unrelated-output', '%s: %r vs %r' % (m, d1, d2), case)
    rec.count('metamorphic.pairs')
    rec.mark_nontrivial(digest(['meta', sc]))


def probes(ctx):
    def p(rec):
        # D08: broken copy at source 0, good copy at source 1
        sc = {'universe': ['MA-MIB'] + list(orch.BASE), 'user': ['MA-MIB'], 'imports': {'MA-MIB': []},
              'sources': [{'MA-MIB': 'syntax', 'SNMPv2-SMI': 'good', 'SNMPv2-TC': 'good', 'SNMPv2-CONF': 'good'},
                          {'MA-MIB': 'good'}],
              'requested': ['MA-MIB'], 'codegen': {}, 'writer': {}, 'searchers': [], 'borrowers': [],
              'options': {'noDeps': None, 'rebuild': None, 'dryRun': None, 'genTexts': None, 'ignoreErrors': None,
                          'writeMibs': None}, 'realgen': False}
        out = orch.run(sc)
        ctx.probe('D08', not (out.result and out.result.get('MA-MIB') == 'compiled'))
        sc2 = copy.deepcopy(sc)
        sc2['sources'] = [dict(sc['sources'][0], **{'MA-MIB': 'empty'})]
        out = orch.run(sc2)
        ctx.probe('D09', not (out.result and 'MA-MIB' in out.result))
        # D43: file named like its good first module, broken second module, ignoreErrors
        sc3 = copy.deepcopy(sc)
        sc3['universe'] = ['MA-MIB', 'MB-MIB'] + list(orch.BASE)
        sc3['user'] = ['MA-MIB', 'MB-MIB']
        sc3['imports'] = {'MA-MIB': [], 'MB-MIB': []}
        sc3['sources'] = [{'MA-MIB': ['file', 'MA-MIB', 'good', ['MB-MIB'], 'semantic'], 'SNMPv2-SMI': 'good',
                           'SNMPv2-TC': 'good', 'SNMPv2-CONF': 'good'}]
        sc3['options']['ignoreErrors'] = True
        out = orch.run(sc3)
        wrote = [e for e in out.log if e[0] == 'put' and e[1] == 'MA-MIB']
        ctx.probe('D43', bool(wrote) and out.result.get('MA-MIB') != 'compiled')
        rec.evaluated(3)
    ctx.inline('probe', p)


def run(ctx):
    ctx.search('invariants', cases, prop, ctx.pick(24000, 500000))
    ctx.search('metamorphic', cases, metamorphic_prop, ctx.pick(8000, 150000))
    orch.small_sweep(ctx, lambda sc, rec: prop(sc, rec))
    probes(ctx)


def replay(ctx, data):
    from vlib.core import Recorder
    rec = Recorder(ctx.findings)
    if data.get('search') == 'metamorphic':
        metamorphic_prop(data['case'], rec)
    else:
        prop(data['case'], rec)
