"""C02 - the syntax tree is a faithful, layout-independent image of the MIB text.

Oracle 1 (reference model): parse(render(model)) == expected_tree(model) for every dialect admitting the text.
Oracle 2 (metamorphic): two independent layouts of the same token sequence parse to identical trees.
Oracle 3 (metamorphic): replacing MACRO / EXPORTS / CHOICE bodies leaves the tree unchanged.
"""
import re

from hypothesis import strategies as st

from vlib.core import Violation, digest
from vlib import mibgen

ID = 'C02'
LEVEL = 'exploration'
RULE = ('Hypothesis draws a module-set model (mibgen: all clause kinds, optional parts toggled, lists 1-8, '
        'numbers at token-class boundaries in dec/hex/bin, MACRO/EXPORTS/CHOICE blocks), two independent layouts '
        '(space, tab, LF, CRLF, CR, blank lines, -- comments, no separator next to punctuation) and alternative '
        'block bodies; all modules of a set are also concatenated into one file. A case is non-trivial when the '
        'file has >= 3 clause kinds and >= 1 of: comment between tokens, CR or CRLF line end, skipped block, '
        'negative or > 32-bit number, hex/bin literal. Distinctness = hash of the rendered texts. Texts come from the '
        'nasty alphabet (backslashes, apostrophes, escape look-alikes); a file may end inside a comment. A coverage facet '
        'counts which grammar actions the generated texts fire.')
ASSUMPTIONS = [
    'expected_tree (DESIGN appendix A) is the documented tuple shape of the parser result',
    'tuple/list container type is not compared, only structure and values',
    'identifiers are legal SMI names; comments are preceded by whitespace; block bodies never contain their terminator',
    'v2 texts never use the words the SMIv1 dialects reserve (MAX, NetworkAddress)',
]

_parsers = {}


def parser(dialect):
    from pysmi.parser.smi import parserFactory
    from pysmi.parser import dialect as dl
    if dialect not in _parsers:
        _parsers[dialect] = parserFactory(**getattr(dl, dialect))()
    p = _parsers[dialect]
    p.reset()   # known-clean lexer before every parse (state leakage is C12's subject)
    return p


def fresh_parse(dialect, text):
    return parser(dialect).parse(text)


PROFILE = mibgen.profile(dialects=('v2', 'v2', 'v1'), modules=(1, 3), decls=(1, 12), compl_object_first=True, texts='nasty',
                         defval_empty_string=True, pykeywords=True)


@st.composite
def cases(draw):
    mset = draw(mibgen.module_sets(PROFILE))
    lay = []
    for m in mset['modules']:
        toks, _ = mibgen.module_tokens(m)
        a = draw(mibgen.layouts(len(toks)))
        b = draw(mibgen.layouts(len(toks)))
        lay.append([a, b])
    alt = draw(mibgen.ctext('abcxyz 019:=|\n\t,', min_size=1, max_size=20))
    return {'mset': mset, 'layouts': lay, 'altbody': alt}


def _alt_bodies(mod, alt):
    import copy
    m = copy.deepcopy(mod)
    changed = False
    if m.get('exports') is not None:
        m['exports'] = alt
        changed = True
    for d in m['decls']:
        if d['k'] == 'macro':
            d['body'] = 'BEGIN ' + alt
            changed = True
        elif d['k'] == 'choice':
            d['body'] = '{ ' + alt
            changed = True
    return m, changed


def _classify(text, mods, rec):
    feats = set()
    if '--' in re.sub(r'"[^"]*"', '', text):
        feats.add('comment')
    if '\r' in text:
        feats.add('cr')
    if any(d['k'] in ('macro', 'choice') for m in mods for d in m['decls']) or any(m.get('exports') is not None for m in mods):
        feats.add('skipblock')
    if re.search(r"'[0-9a-fA-F]*'[hHbB]", text):
        feats.add('hexbin')
    if re.search(r'(?<![\w\'])-[0-9]', text) or re.search(r'(?<![\w\'])[0-9]{10,}', text):
        feats.add('bignum')
    kinds = set(k for m in mods for k in mibgen.kinds_in(m))
    for f in feats:
        rec.count('feature.' + f)
    for k in kinds:
        rec.count('kind.' + k)
    return len(kinds) >= 3 and bool(feats)


def prop(case, rec):
    mset = case['mset']
    texts = []
    for m, (la, lb) in zip(mset['modules'], case['layouts']):
        toks, _ = mibgen.module_tokens(m)
        ta, _ = mibgen.join_tokens(toks, la)
        tb, _ = mibgen.join_tokens(toks, lb)
        tc, _ = mibgen.join_tokens(toks, mibgen.canonical_layout(toks))
        exp = mibgen.normalize_tree([mibgen.expected_tree(m)])
        dialects = ('smiV2', 'smiV1', 'smiV1Relaxed') if m['dialect'] == 'v2' else ('smiV1', 'smiV1Relaxed')
        for dl in dialects:
            trees = []
            for label, text in (('layoutA', ta), ('layoutB', tb), ('canonical', tc)):
                try:
                    tree = mibgen.normalize_tree(fresh_parse(dl, text))
                except Exception as e:
                    raise Violation('well-formed-text-rejected', '%s under %s: %r' % (m['name'], dl, e),
                                    case, {'text': text, 'dialect': dl})
                trees.append(tree)
                rec.evaluated()
                if tree != exp:
                    raise Violation('tree-differs-from-model', _first_diff(exp, tree), case,
                                    {'text': text, 'dialect': dl, 'layout': label})
            if not (trees[0] == trees[1] == trees[2]):
                raise Violation('layout-changes-tree', 'module %s dialect %s' % (m['name'], dl), case,
                                {'textA': ta, 'textB': tb})
        m2, changed = _alt_bodies(m, case['altbody'].replace(';', '').replace('}', '').replace('END', 'x') or 'x')
        if changed:
            toks2, _ = mibgen.module_tokens(m2)
            t2, _ = mibgen.join_tokens(toks2, mibgen.canonical_layout(toks2))
            try:
                tree2 = mibgen.normalize_tree(fresh_parse(dialects[0], t2))
            except Exception as e:
                raise Violation('well-formed-text-rejected', 'alt block body: %r' % e, case, {'text': t2})
            rec.evaluated()
            rec.count('altbody')
            if tree2 != exp:
                raise Violation('block-body-changes-tree', _first_diff(exp, tree2), case, {'text': t2})
        texts.append(ta)
    # several modules per file
    if len(texts) > 1:
        whole = '\n'.join(texts)
        v1 = any(m['dialect'] == 'v1' for m in mset['modules'])
        dl = 'smiV1' if v1 else 'smiV2'
        try:
            tree = mibgen.normalize_tree(fresh_parse(dl, whole))
        except Exception as e:
            raise Violation('well-formed-text-rejected', 'multi-module file under %s: %r' % (dl, e), case, {'text': whole})
        exp = mibgen.normalize_tree([mibgen.expected_tree(m) for m in mset['modules']])
        rec.evaluated()
        rec.count('multi-module-file')
        if tree != exp:
            raise Violation('tree-differs-from-model', 'multi-module file: ' + _first_diff(exp, tree), case,
                            {'text': whole})
    whole = '\n'.join(texts)
    if _classify(whole, mset['modules'], rec):
        rec.mark_nontrivial(digest(texts))
    rec.sample({'text': whole[:1500]})


def _first_diff(a, b, path=''):
    if type(a) != type(b):
        return '%s: expected %r got %r' % (path, a, b)
    if isinstance(a, list):
        if len(a) != len(b):
            return '%s: length %d vs %d: expected %r got %r' % (path, len(a), len(b), a, b)
        for i, (x, y) in enumerate(zip(a, b)):
            if x != y:
                return _first_diff(x, y, '%s[%d]' % (path, i))
        return ''
    if isinstance(a, dict):
        return _first_diff(a.get('__dict__'), b.get('__dict__'), path + '{}')
    return '%s: expected %r got %r' % (path, a, b)


PROBE_D25 = '''X DEFINITIONS ::= BEGIN
OBJECT-TYPE MACRO ::= BEGIN  DEPENDS "on" SEND  END
a OBJECT IDENTIFIER ::= { 1 3 }
END
'''


def probes(ctx):
    # D25: MACRO body ends at the first *substring* END
    def p(rec):
        bad = False
        try:
            tree = fresh_parse('smiV2', PROBE_D25)
            bad = mibgen.normalize_tree(tree) != [['X', None, None, [None, ['valueDeclaration', 'a', ['objectIdentifier', [1, 3]]]]]]
        except Exception:
            bad = True
        rec.evaluated()
        ctx.probe('D25', bad)
    ctx.inline('probe', p)


def instrumented_parser(dialect, fired):
    """A parser of the given dialect whose grammar actions count their own invocations (harness-side subclass: every
    p_* rule is wrapped, keeping the docstring and the source line PLY orders the rules by)."""
    from pysmi.parser.smi import parserFactory
    from pysmi.parser import dialect as dl
    base = parserFactory(**getattr(dl, dialect))
    attrs = {}
    for name in dir(base):
        if not name.startswith('p_') or name == 'p_error':
            continue
        orig = getattr(base, name)
        func = getattr(orig, '__func__', orig)

        def make(func=func, name=name):
            def wrapper(self, p):
                fired[name] = fired.get(name, 0) + 1
                return func(self, p)
            wrapper.__doc__ = func.__doc__
            wrapper.__name__ = name
            wrapper.co_firstlineno = func.__code__.co_firstlineno
            return wrapper
        attrs[name] = make()
    return type('Counting' + base.__name__, (base,), attrs)()


def production_coverage(ctx):
    """Which grammar actions the generated texts reach (reported in the evidence; rules never fired are listed)."""
    def fn(rec, shard, nshards, seed, tier, extra):
        import hypothesis
        from hypothesis import settings, given, HealthCheck
        fired = {}
        parsers = dict((d, instrumented_parser(d, fired)) for d in ('smiV2', 'smiV1Relaxed'))
        allrules = sorted(n for n in dir(parsers['smiV1Relaxed']) if n.startswith('p_') and n != 'p_error')
        texts = []

        @hypothesis.seed(seed * 131 + shard)
        @settings(max_examples=12 if tier == 'quick' else 60, database=None, deadline=None,
                  suppress_health_check=list(HealthCheck), phases=[hypothesis.Phase.generate])
        @given(mibgen.module_sets(PROFILE))
        def collect(ms):
            for m in ms['modules']:
                texts.append((m['dialect'], mibgen.render_simple(m)))
        collect()
        if shard == 0:
            # the base SMI modules declare types named like SMI keywords (Integer32 ::= ..., typeSMI rules)
            from vlib import fixtures
            for n in fixtures.available():
                texts.append(('v1', fixtures.text(n)))
        for dialect, text in texts:
            p = parsers['smiV2' if dialect == 'v2' and len(text) % 2 else 'smiV1Relaxed']
            p.reset()
            try:
                p.parse(text)
            except Exception:
                rec.count('text-rejected')    # judged by the model search, not here: this facet only measures coverage
            rec.evaluated()
        for n in allrules:
            rec.count('rule.%s' % n, fired.get(n, 0))
        return None
    ctx.parallel('productions', fn)
    rules = dict((k.split('rule.', 1)[1], v) for k, v in ctx.counters.items() if k.startswith('productions.rule.'))
    for k in list(ctx.counters):
        if k.startswith('productions.rule.'):
            del ctx.counters[k]
    never = sorted(k for k, v in rules.items() if not v)
    ctx.extra_cov['grammar_actions'] = {'total': len(rules), 'fired': len(rules) - len(never), 'never_fired': never}
    ctx.counters['productions.grammar-actions-fired'] = len(rules) - len(never)
    ctx.counters['productions.grammar-actions-total'] = len(rules)


def run(ctx):
    ctx.search('model', cases, prop, ctx.pick(2400, 60000))
    production_coverage(ctx)
    probes(ctx)


def replay(ctx, data):
    from vlib.core import Recorder
    prop(data['case'], Recorder(ctx.findings))
