"""C11 - malformed input is rejected with a located package error, never accepted.

Domains: (a) every proper character prefix of rendered well-formed files, judged with the renderer's token span
table; (b) token-level mutants (delete / duplicate / replace / insert); (c) inserted never-viable tokens with an
exact-line oracle; (d) keyword/punctuation/character noise; (e) the same failures through MibCompiler.compile().
The thorough tier adds an atheris (libFuzzer) campaign with the same oracle inside the target.
"""
import os
import re
import signal
import sys

from hypothesis import strategies as st

from vlib.core import Violation, digest, HarnessError, VERIF
from vlib import mibgen

ID = 'C11'
LEVEL = 'exploration'
RULE = ('(a) all proper prefixes of generated well-formed files are enumerated (not sampled); a prefix is '
        'non-trivial when it ends inside a module. (b) Hypothesis picks a well-formed file, a position and a '
        'mutation (delete, duplicate, replace by another token of the file, insert a token from a pool of '
        'keywords, punctuation, illegal characters, forbidden ASN.1 words, numbers > 2^64-1, identifiers ending in '
        '-); non-trivial when the mutant is rejected. (c) inserted never-viable tokens: exact line must be '
        'reported. (d) noise strings over SMI keywords/punctuation/quotes/control and non-ASCII characters; '
        'non-trivial with >= 3 tokens. Distinctness = hash of the input text.')
ASSUMPTIONS = [
    'an empty or comment-only file is a complete MIB file with zero modules',
    'at end of input any line number in [1, lines+1] is accepted',
    'for a never-viable inserted token the LALR parser has consumed only a viable prefix, so the reported line '
    'must be the line the renderer put the token on',
    'a prefix that ends between two modules but splits a `--` comment marker leaves a stray `-` and may be rejected',
]

DIALECTS = ('smiV2', 'smiV1', 'smiV1Relaxed')
_parsers = {}


def parser(dialect):
    from pysmi.parser.smi import parserFactory
    from pysmi.parser import dialect as dl
    if dialect not in _parsers:
        _parsers[dialect] = parserFactory(**getattr(dl, dialect))()
    p = _parsers[dialect]
    p.reset()
    return p


class _Timeout(Exception):
    pass


def _alarm(signum, frame):
    raise _Timeout()


def guarded_parse(dialect, text, case=None):
    """Returns ('ok', trees) or ('err', exc). Raises Violation for foreign exceptions / hangs / bad line numbers."""
    from pysmi import error
    old = signal.signal(signal.SIGALRM, _alarm)
    signal.alarm(30)
    try:
        try:
            trees = parser(dialect).parse(text)
        finally:
            signal.alarm(0)
            signal.signal(signal.SIGALRM, old)
    except _Timeout:
        raise Violation('non-termination', 'parse did not return within 30 s under %s' % dialect, case, {'text': text})
    except error.PySmiLexerError as e:
        nlines = len(re.findall(r'\r\n|\n|\r', text)) + 1
        ln = getattr(e, 'lineno', None)
        if not isinstance(ln, int) or isinstance(ln, bool) or not (1 <= ln <= nlines + 1):
            raise Violation('error-without-valid-line', 'lineno=%r for a text of %d lines (%s): %s' % (
                ln, nlines, dialect, e), case, {'text': text})
        return 'err', e
    except Exception as e:
        raise Violation('foreign-exception', '%s under %s: %r' % (type(e).__module__ + '.' + type(e).__name__,
                                                                  dialect, e), case, {'text': text})
    if not isinstance(trees, list):
        raise Violation('bad-return', 'parse returned %r' % type(trees), case, {'text': text})
    return 'ok', trees


# ---------------------------------------------------------------------------
# (a) prefixes

PREFIX_PROFILE = mibgen.profile(dialects=('v2', 'v2', 'v1'), modules=(1, 2), decls=(1, 7), texts='plain',
                                compl_object_first=True, defval_empty_string=True)


@st.composite
def files(draw, prof=PREFIX_PROFILE):
    mset = draw(mibgen.module_sets(prof))
    toks = []
    mod_bounds = []
    for m in mset['modules']:
        t, _ = mibgen.module_tokens(m)
        mod_bounds.append((len(toks), len(toks) + len(t)))
        toks += t
    seps = draw(mibgen.layouts(len(toks)))
    v1 = any(m['dialect'] == 'v1' for m in mset['modules'])
    return {'mset': mset, 'seps': seps, 'dialects': ['smiV1', 'smiV1Relaxed'] if v1 else list(DIALECTS)}


def build_file(case):
    toks = []
    mod_bounds = []
    for m in case['mset']['modules']:
        t, _ = mibgen.module_tokens(m)
        mod_bounds.append((len(toks), len(toks) + len(t)))
        toks += t
    text, spans = mibgen.join_tokens(toks, case['seps'])
    return toks, mod_bounds, text, spans


def _gap_state(gap):
    """Scan inter-module text; returns 'clean' or 'partial' (a lone '-' at the very end, outside a comment)."""
    i = 0
    n = len(gap)
    while i < n:
        c = gap[i]
        if gap.startswith('--', i):
            j = i + 2
            while j < n and gap[j] not in '\r\n':
                j += 1
            i = j
        elif c == '-':
            return 'partial'
        else:
            i += 1
    return 'clean'


def prefix_prop(case, rec):
    toks, mod_bounds, text, spans = build_file(case)
    exp_trees = [mibgen.normalize_tree(mibgen.expected_tree(m)) for m in case['mset']['modules']]
    starts = [spans[a][0] for a, b in mod_bounds]
    ends = [spans[b - 1][0] + len(spans[b - 1][2]) for a, b in mod_bounds]
    dialect = case['dialects'][0]
    # sanity: the whole file parses (soundness of the generator)
    st_, whole = guarded_parse(dialect, text, case)
    if st_ != 'ok' or mibgen.normalize_tree(whole) != exp_trees:
        raise Violation('well-formed-text-rejected', 'complete file: %r' % (whole,), case, {'text': text})
    nmods = len(mod_bounds)
    for L in range(len(text)):
        pre = text[:L]
        # which gap / module does L fall in
        k = None
        for i in range(nmods + 1):
            lo = ends[i - 1] if i else 0
            hi = starts[i] if i < nmods else len(text)
            if lo <= L <= hi:
                k = i
                gap = text[lo:L]
                break
        status, res = guarded_parse(dialect, pre, case)
        rec.evaluated()
        if k is None:
            rec.count('inside-module')
            rec.mark_nontrivial(digest(pre))
            if status == 'ok':
                raise Violation('truncated-file-accepted', 'prefix of %d chars ends inside a module but parse '
                                'returned %d module(s)' % (L, len(res)), case, {'text': pre, 'dialect': dialect})
        else:
            rec.count('between-modules')
            if status == 'ok':
                if mibgen.normalize_tree(res) != exp_trees[:k]:
                    raise Violation('prefix-result-wrong', 'prefix ending after module %d returned %d modules' % (
                        k, len(res)), case, {'text': pre, 'dialect': dialect})
            elif _gap_state(gap) == 'clean':
                raise Violation('complete-file-rejected', 'prefix ends between modules (after %d) but was rejected: %s' % (
                    k, res), case, {'text': pre, 'dialect': dialect})
    rec.sample({'text': text[:1200], 'prefixes': len(text)})


# ---------------------------------------------------------------------------
# (b), (c) token mutants

ILLEGAL_CHARS = ['$', '#', '!', '~', '@', '%', '&', '*', '+', '/', '<', '>', '?', '=']
NEVER_VIABLE = ILLEGAL_CHARS + ['FALSE', 'TRUE', 'NULL', 'ANY', 'BOOLEAN', 'SET', 'REAL', 'DEFAULT', 'OPTIONAL',
                                'MIN', 'WITH', 'ENUMERATED', 'PRIVATE', 'MINUS-INFINITY', 'PLUS-INFINITY', 'ABSENT',
                                'BIT', 'BY', 'COMPONENT', 'COMPONENTS', 'DEFINED', 'EXPLICIT', 'EXTERNAL', 'PRESENT',
                                'TAGS', '18446744073709551616', '-18446744073709551616',
                                '99999999999999999999999999', 'foo-', 'Bar-', '.']
POOL = NEVER_VIABLE + ['BEGIN', 'END', 'DEFINITIONS', '::=', 'OBJECT-TYPE', 'SYNTAX', 'STATUS', 'DESCRIPTION', '{', '}',
                       '(', ')', ',', ';', '|', '..', '[', ']', 'IMPORTS', 'FROM', 'INTEGER', 'OCTET', 'STRING',
                       'SEQUENCE', 'OF', 'OBJECT', 'IDENTIFIER', 'MACRO', 'EXPORTS', 'CHOICE', '"text"', '""',
                       "'ff'H", "'01'B", "''H", '0', '1', '-1', '4294967296', '-4294967296',
                       '18446744073709551615', 'x', 'X', 'MAX', 'NetworkAddress', 'SIZE', 'DEFVAL', 'INDEX',
                       'AUGMENTS', 'MODULE', 'GROUP', 'MANDATORY-GROUPS', 'TEXTUAL-CONVENTION', '-', ':', '"', "'",
                       'MAX-ACCESS', 'ACCESS', 'read-only', 'current', '--', '-- c\n']

MUT_PROFILE = mibgen.profile(dialects=('v2', 'v2', 'v1'), modules=(1, 2), decls=(1, 8), texts='plain',
                             compl_object_first=True)


@st.composite
def mutants(draw):
    case = draw(files(MUT_PROFILE))
    toks, _, _, _ = build_file(case)
    n = len(toks)
    op = draw(st.sampled_from(('delete', 'duplicate', 'replace', 'insert', 'insert', 'swap')))
    pos = draw(st.integers(0, n - 1))
    case['op'] = op
    case['pos'] = pos
    case['other'] = draw(st.integers(0, n - 1))
    case['tok'] = draw(st.sampled_from(POOL))
    case['dialect'] = draw(st.sampled_from(case['dialects']))
    return case


def _mutate(toks, seps, case):
    toks = list(toks)
    seps = list(seps)
    op, pos = case['op'], case['pos']
    if op == 'delete':
        del toks[pos]
        del seps[pos]
    elif op == 'duplicate':
        toks.insert(pos, toks[pos])
        seps.insert(pos, ' ')
    elif op == 'replace':
        toks[pos] = toks[case['other']]
    elif op == 'swap':
        toks[pos], toks[case['other']] = toks[case['other']], toks[pos]
    elif op == 'insert':
        toks.insert(pos, case['tok'])
        seps.insert(pos, seps[pos] if seps[pos] else ' ')
        seps[pos + 1] = ' ' if not seps[pos + 1] else seps[pos + 1]
    # RAW tokens moved away from their keyword are rendered as plain text
    toks = [t[1] if (isinstance(t, tuple) and (i == 0 or toks[i - 1] not in ('MACRO', 'EXPORTS', 'CHOICE'))) else t
            for i, t in enumerate(toks)]
    return toks, seps


def mutant_prop(case, rec):
    toks, _, _, _ = build_file(case)
    mt, ms = _mutate(toks, case['seps'], case)
    text, _ = mibgen.join_tokens(mt, ms)
    status, res = guarded_parse(case['dialect'], text, case)
    rec.evaluated()
    rec.count('op.' + case['op'])
    rec.count('mutant.' + ('rejected' if status == 'err' else 'accepted'))
    if status == 'err':
        rec.mark_nontrivial(digest(text))
        rec.count('error.' + type(res).__name__)
        rec.sample({'text': text[:600], 'error': str(res)})


OVERSIZE = ['18446744073709551616', '-18446744073709551616', '99999999999999999999999999', '-99999999999999999999999999',
            '340282366920938463463374607431768211456', '-18446744073709551617']


@st.composite
def oversize_cases(draw):
    """A number that stands where the grammar wants a number (range bound, DEFVAL) is replaced by one beyond 64 bits."""
    case = draw(files(mibgen.profile(dialects=('v2', 'v2', 'v1'), modules=(1, 1), decls=(2, 8), texts='short',
                                     kinds=('scalar', 'scalar', 'type', 'table'))))
    toks, _, _, _ = build_file(case)
    spots = [i for i, t in enumerate(toks) if isinstance(t, str) and re.match(r'^-?[0-9]+$', t) and i > 0
             and toks[i - 1] in ('(', '..', '|', '{') and (toks[i - 1] != '{' or (i > 1 and toks[i - 2] == 'DEFVAL'))]
    case['spots'] = spots
    case['pick'] = draw(st.integers(0, 10 ** 6))
    case['tok'] = draw(st.sampled_from(OVERSIZE))
    case['dialect'] = draw(st.sampled_from(case['dialects']))
    return case


def oversize_prop(case, rec):
    toks, _, _, _ = build_file(case)
    rec.evaluated()
    if not case['spots']:
        rec.count('oversize.no-number-position')
        return
    pos = case['spots'][case['pick'] % len(case['spots'])]
    mt = list(toks)
    mt[pos] = case['tok']
    text, spans = mibgen.join_tokens(mt, case['seps'])
    want = spans[pos][1]
    status, res = guarded_parse(case['dialect'], text, case)
    rec.count('oversize.' + ('negative' if case['tok'].startswith('-') else 'positive'))
    if status == 'ok':
        raise Violation('oversize-number-accepted', 'number %s on line %d (beyond 64 bits) was accepted' % (case['tok'], want),
                        case, {'text': text})
    rec.mark_nontrivial(digest(text))
    if res.lineno != want:
        raise Violation('wrong-line-number', 'oversize number %s is on line %d, error says line %s: %s' % (
            case['tok'], want, res.lineno, res), case, {'text': text})


def _insertable(toks, i):
    """Position i (insert before token i) lies in the lexer's INITIAL state."""
    if i == 0:
        return True
    prev = toks[i - 1]
    if prev in ('MACRO', 'EXPORTS', 'CHOICE'):
        return False
    if isinstance(prev, tuple) and i >= 2 and toks[i - 2] == 'MACRO':
        return False
    return True


@st.composite
def exact_line_cases(draw):
    case = draw(files(MUT_PROFILE))
    toks, _, _, _ = build_file(case)
    good = [i for i in range(len(toks) + 1) if i == len(toks) or _insertable(toks, i)]
    case['pos'] = draw(st.sampled_from(good))
    case['tok'] = draw(st.sampled_from(NEVER_VIABLE))
    case['dialect'] = draw(st.sampled_from(case['dialects']))
    case['pre'] = draw(st.sampled_from((' ', '\n', '\r\n', '\t', '\n\n', ' -- x\n')))
    case['post'] = draw(st.sampled_from((' ', '\n', '\r\n', ' ')))
    return case


def exact_line_prop(case, rec):
    toks, _, _, _ = build_file(case)
    pos = case['pos']
    tok = case['tok']
    if case['dialect'] != 'smiV2' and tok == 'MAX':
        tok = 'MIN'
    mt = list(toks)
    ms = list(case['seps'])
    mt.insert(pos, tok)
    ms.insert(pos, case['pre'])
    ms[pos + 1] = case['post']
    text, spans = mibgen.join_tokens(mt, ms)
    want = spans[pos][1]
    status, res = guarded_parse(case['dialect'], text, case)
    rec.evaluated()
    rec.count('inserted.' + ('char' if tok in ILLEGAL_CHARS else 'word'))
    if status == 'ok':
        raise Violation('never-viable-token-accepted', 'token %r inserted at line %d was accepted' % (tok, want),
                        case, {'text': text})
    rec.mark_nontrivial(digest(text))
    blocks_before = any(t in ('MACRO', 'EXPORTS', 'CHOICE') for t in mt[:pos])
    rec.count('after-skipped-block' if blocks_before else 'no-skipped-block-before')
    if res.lineno != want:
        raise Violation('wrong-line-number', 'token %r is on line %d, error says line %s: %s' % (
            tok, want, res.lineno, res), case, {'text': text, 'after_skipped_block': blocks_before})
    rec.sample({'text': text[:500], 'token': tok, 'line': want})


# ---------------------------------------------------------------------------
# (d) noise

NOISE_ATOMS = POOL + ['A', 'b', 'Foo', 'bar-baz', 'X-MIB', 'a1', '\n', '\r\n', '\r', '\t', ' ', '  ', '\x00', '\x0b',
                      '\x7f', 'é', '中', '\U0001f600', '"a\nb"', "'", '"', '_', '^', '`', '\\', '12ab', '0x10', '1.2',
                      "'gg'H", "'12'B", "'ff'h", "''b", 'END END', 'BEGIN END', 'X DEFINITIONS ::= BEGIN',
                      'X DEFINITIONS ::= BEGIN END', '-5', '--', '---', '----', '-- c', 'MACRO ::= BEGIN x END',
                      'EXPORTS a, b;', 'CHOICE { a B }', 'a OBJECT IDENTIFIER ::= { 1 }']


@st.composite
def noise(draw):
    atoms = draw(st.lists(st.one_of(st.sampled_from(NOISE_ATOMS),
                                    mibgen.utext(4), mibgen.ctext('"\'', max_size=2)),
                          min_size=0, max_size=40))
    glue = draw(st.sampled_from((' ', ' ', '', '\n')))
    return {'text': glue.join(atoms), 'dialect': draw(st.sampled_from(DIALECTS)), 'natoms': len(atoms)}


def noise_prop(case, rec):
    status, res = guarded_parse(case['dialect'], case['text'], case)
    rec.evaluated()
    rec.count('noise.' + ('rejected' if status == 'err' else 'accepted'))
    if case['natoms'] >= 3:
        rec.mark_nontrivial(digest(case['text']))
    if status == 'err':
        rec.count('error.' + type(res).__name__)
    rec.sample({'text': case['text'][:300], 'outcome': status})


# ---------------------------------------------------------------------------
# (e) through compile()

def compile_prop(case, rec):
    from pysmi.compiler import MibCompiler
    from pysmi.reader.callback import CallbackReader
    from pysmi.writer.callback import CallbackWriter
    from pysmi.codegen.jsondoc import JsonCodeGen
    from pysmi import error
    toks, _, _, _ = build_file(case)
    mt, ms = _mutate(toks, case['seps'], case)
    text, _ = mibgen.join_tokens(mt, ms)
    status, res = guarded_parse(case['dialect'], text, case)
    if status != 'err':
        return
    name = case['mset']['modules'][0]['name']
    written = []
    comp = MibCompiler(parser(case['dialect']), JsonCodeGen(), CallbackWriter(lambda m, d, c: written.append(m)))
    comp.addSources(CallbackReader(lambda m, c: text if m == name else ''))
    try:
        out = comp.compile(name)
    except Exception as e:
        raise Violation('compile-raised', repr(e), case, {'text': text})
    rec.evaluated()
    stt = out.get(name)
    if stt != 'failed':
        raise Violation('malformed-module-not-failed', 'status of %s is %r (all: %r)' % (name, stt, dict(out)), case,
                        {'text': text})
    err = getattr(stt, 'error', None)
    if not isinstance(err, error.PySmiLexerError) or type(err) is not type(res) or err.lineno != res.lineno:
        raise Violation('compile-error-differs', 'parse raised %r, status carries %r' % (res, err), case,
                        {'text': text})
    if written:
        raise Violation('malformed-module-written', repr(written), case, {'text': text})
    rec.count('compile.failed-with-located-error')
    rec.mark_nontrivial(digest(['compile', text]))


# ---------------------------------------------------------------------------
# probes for listed findings (fixed ones must stay fixed)

def probes(ctx):
    def p(rec):
        from pysmi import error
        # D01 truncated file
        try:
            r = parser('smiV2').parse('X DEFINITIONS ::= BEGIN\n')
            bad = True
        except error.PySmiLexerError:
            bad = False
        except Exception:
            bad = True
        ctx.probe('D01', bad)
        # D02 unterminated MACRO
        try:
            parser('smiV2').parse('X DEFINITIONS ::= BEGIN\nOBJECT-TYPE MACRO ::= BEGIN foo')
            bad = True
        except error.PySmiLexerError:
            bad = False
        except Exception:
            bad = True
        ctx.probe('D02', bad)
        # D03 line numbers after a multi-line MACRO body
        txt = 'X DEFINITIONS ::= BEGIN\nOBJECT-TYPE MACRO ::=\nBEGIN\n a\n b\n c\nEND\n$\nEND\n'
        try:
            parser('smiV2').parse(txt)
            bad = True
        except error.PySmiLexerError as e:
            bad = e.lineno != 8
        except Exception:
            bad = True
        ctx.probe('D03', bad)
        rec.evaluated(3)
    ctx.inline('probe', p)


# ---------------------------------------------------------------------------
# atheris campaign (thorough tier)

def atheris_campaign(ctx):
    import subprocess
    deps = os.path.join(VERIF, '.deps')
    env = dict(os.environ, PYTHONPATH=deps + os.pathsep + os.path.join(VERIF, 'lib'), PYTHONHASHSEED='0')
    target = os.path.join(VERIF, 'tools', 'fuzz_parser.py')
    probe = subprocess.run([sys.executable, '-c', 'import atheris'], env=env, capture_output=True)
    if probe.returncode != 0:
        ctx.notes.append('atheris not importable by /venv/bin/python; campaign skipped')
        return
    import tempfile
    import shutil
    runs = 60000
    procs = []
    work = tempfile.mkdtemp(prefix='c11fuzz')
    try:
        for i in range(ctx.shards):
            corpus = os.path.join(work, 'corpus%d' % i)
            os.makedirs(corpus)
            out = os.path.join(work, 'out%d' % i)
            os.makedirs(out)
            cmd = [sys.executable, target, corpus, '-runs=%d' % runs, '-seed=%d' % (ctx.seed * 100 + i + 1),
                   '-max_len=600', '-artifact_prefix=%s/' % out, '-dict=%s' % os.path.join(VERIF, 'tools', 'smi.dict'),
                   '-timeout=30']
            e = dict(env, C11_DIALECT=DIALECTS[i % 3], C11_SEED_CORPUS='1' if i % 2 else '0')
            procs.append((i, out, subprocess.Popen(cmd, env=e, stdout=subprocess.PIPE, stderr=subprocess.STDOUT)))
        total = 0
        for i, out, pr in procs:
            log = pr.communicate()[0].decode('utf-8', 'replace')
            m = re.findall(r'Done (\d+) runs', log)
            total += int(m[-1]) if m else 0
            arts = os.listdir(out)
            if arts or pr.returncode != 0:
                data = b''
                if arts:
                    with open(os.path.join(out, arts[0]), 'rb') as f:
                        data = f.read()
                text = data.decode('utf-8', 'ignore')
                ctx.failures.append({'facet': 'atheris-' + DIALECTS[i % 3], 'detail': log[-800:],
                                     'case': {'text': text, 'dialect': DIALECTS[i % 3], 'natoms': 3},
                                     'extra': None, 'search': 'atheris'})
        ctx.evaluations += total
        ctx.counters['atheris.executions'] = total
    finally:
        shutil.rmtree(work, ignore_errors=True)


def run(ctx):
    ctx.search('prefix', files, prefix_prop, ctx.pick(24, 400), shrink=False)
    ctx.search('mutant', mutants, mutant_prop, ctx.pick(6000, 200000))
    ctx.search('exactline', exact_line_cases, exact_line_prop, ctx.pick(3000, 100000))
    ctx.search('oversize', oversize_cases, oversize_prop, ctx.pick(2000, 40000))
    ctx.search('noise', noise, noise_prop, ctx.pick(4000, 150000))
    ctx.search('compile', mutants, compile_prop, ctx.pick(1000, 30000))
    probes(ctx)
    if ctx.tier == 'thorough':
        atheris_campaign(ctx)


def replay(ctx, data):
    from vlib.core import Recorder
    rec = Recorder(ctx.findings)
    case = data['case']
    search = data.get('search')
    if search == 'prefix':
        prefix_prop(case, rec)
    elif search == 'mutant':
        mutant_prop(case, rec)
    elif search == 'exactline':
        exact_line_prop(case, rec)
    elif search == 'compile':
        compile_prop(case, rec)
    elif search == 'oversize':
        oversize_prop(case, rec)
    else:
        noise_prop(case, rec)
