"""C03 - JSON output is well formed and holds exactly the declared symbols.

Oracle: json.loads succeeds; key set == mapped names of all declared symbols (SEQUENCE row types, MACRO and
CHOICE definitions exempt) + imports + meta; class / nodetype / status / maxaccess / units / revisions /
lastupdated / productrelease of every entry equal the declaration (reference model `oracle.expected_entries`).
"""
from hypothesis import strategies as st

from vlib import mibgen, setcheck
from vlib.core import Violation

ID = 'C03'
LEVEL = 'exploration'
RULE = ('Hypothesis draws modules with 5-40 declarations mixing all eleven declaration kinds (value, '
        'OBJECT-IDENTITY, MODULE-IDENTITY, OBJECT-TYPE scalar/table/row/column, NOTIFICATION-TYPE, TRAP-TYPE, '
        'OBJECT-GROUP, NOTIFICATION-GROUP, MODULE-COMPLIANCE, AGENT-CAPABILITIES, type / TEXTUAL-CONVENTION) '
        'with pairwise-distinct names and OIDs, genTexts on and off. Non-trivial: a module with >= 8 symbols of '
        '>= 4 kinds. Distinct = hash of the model. A quarter of the sets carries texts full of characters JSON must escape.')
ASSUMPTIONS = [
    'SEQUENCE row types, MACRO and CHOICE definitions are exempt from "one entry per declared symbol"',
    'hyphen -> underscore is the customary name mapping; the "name" member may be either spelling',
    'an empty text member may be omitted',
]

FACETS = ('compile-failed', 'json-syntax', 'keyset', 'meta', 'entry', 'name', 'class', 'nodetype', 'status',
          'maxaccess', 'units', 'revisions', 'lastupdated', 'productrelease')


def _profile(texts='short'):
    return setcheck.profile_for(None, backends=('json',), dialects=('v2', 'v2', 'v2', 'v1'), modules=(1, 2),
                                decls=(5, 40), texts=texts, skipblocks=True)


@st.composite
def cases(draw):
    # a quarter of the sets carries texts full of characters that JSON must escape (validity of the document)
    texts = draw(st.sampled_from(('short', 'short', 'short', 'nasty')))
    return {'mset': draw(mibgen.module_sets(_profile(texts))), 'genTexts': draw(st.booleans())}


@st.composite
def multi_cases(draw):
    prof = setcheck.profile_for(None, backends=('json',), dialects=('v2', 'v2', 'v2', 'v1'), modules=(2, 3), decls=(3, 14),
                                texts='short', skipblocks=False)
    return {'mset': draw(mibgen.module_sets(prof)), 'genTexts': draw(st.booleans())}


def prop(case, rec):
    mset = case['mset']
    c, mm = setcheck.evaluate(mset, backends=('json',), genTexts=case['genTexts'])
    rec.evaluated()
    setcheck.classify_set(mset, rec)
    rec.count('genTexts.%s' % case['genTexts'])
    for m in mset['modules']:
        syms = [d for d in m['decls'] if d['k'] not in ('seq', 'macro', 'choice')]
        kinds = set(d['k'] + d.get('role', '') for d in syms)
        rec.count('symbols', len(syms))
        if len(syms) >= 8 and len(kinds) >= 4:
            rec.mark_nontrivial(setcheck.set_digest([m, case['genTexts']]))
    setcheck.raise_first(mm, FACETS, case, c)
    rec.sample({'texts': dict((k, v[:800]) for k, v in c.texts.items()), 'genTexts': case['genTexts']})


def compile_prop(case, rec):
    """The same oracle on the documents one MibCompiler.compile() call writes for the whole set (shared parser,
    symbol-table generator and code generator objects across the modules)."""
    from vlib.core import Violation
    mset = case['mset']
    texts, mm = setcheck.evaluate_compile(mset, genTexts=bool(case.get('genTexts')))
    rec.evaluated()
    rec.count('compile-route.sets')
    if len(mset['modules']) > 1:
        rec.mark_nontrivial(setcheck.set_digest(['compile', mset]))
    for backend, facet, detail in mm:
        root = facet.split('.')[0]
        if facet in FACETS or root in FACETS:
            raise Violation('%s:%s' % (backend, facet), detail, case, {'texts': texts})


PROBE_KEYWORDS = {'modules': [{'name': 'PK-MIB', 'dialect': 'v2', 'exports': None, 'imports': [], 'decls': [
    {'k': 'value', 'name': 'global', 'oid': {'first': ['num', 1], 'arcs': [['n', 3]]}, 'num': [1, 3]},
    {'k': 'value', 'name': 'class', 'oid': {'first': ['num', 1], 'arcs': [['n', 4]]}, 'num': [1, 4]},
    {'k': 'value', 'name': 'knode', 'oid': {'first': ['ref', 'PK-MIB', 'global'], 'arcs': [['n', 1]]}, 'num': [1, 3, 1]}]}]}


def probes(ctx):
    def p(rec):
        # D17: symbols named like Python keywords do not compile. If they ever do, they are ordinary symbols: keyed
        # by their own name (a key such as pysmi_global is a renaming the statement does not allow)
        c, mm = setcheck.evaluate(PROBE_KEYWORDS, backends=('json',))
        rec.evaluated()
        fails = any(f == 'compile-failed' for b, f, d in mm)
        ctx.probe('D17', fails)
        if not fails:
            for backend, facet, detail in mm:
                raise Violation('keyword-named-symbol:%s:%s' % (backend, facet), detail, {'mset': PROBE_KEYWORDS, 'genTexts': False},
                                {'texts': c.texts})
    ctx.inline('probe', p)


def run(ctx):
    ctx.search('json', cases, prop, ctx.pick(3000, 60000))
    ctx.search('compile', multi_cases, compile_prop, ctx.pick(1600, 30000))
    probes(ctx)


def replay(ctx, data):
    from vlib.core import Recorder
    if data.get('search') == 'compile':
        compile_prop(data['case'], Recorder(ctx.findings))
    else:
        prop(data['case'], Recorder(ctx.findings))
