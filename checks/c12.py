"""C12 - results depend only on the input: no state leaks, no hash-seed dependence.

Histories: one long-lived parser per dialect, SymtableCodeGen, JsonCodeGen, PySnmpCodeGen and MibCompiler are fed a
Hypothesis-drawn sequence of valid and invalid MIBs; after every step the result (tree, or exception class + line;
generated text; MibInfo name / identity / revision / oids / enterprise / compliance / imported; compile statuses)
must equal what brand-new objects produce for the same input (differential oracle). Hash seeds: a generated
corpus is compiled in child interpreters started with different PYTHONHASHSEED values; all digests must agree.
"""
import copy
import hashlib
import json
import os
import subprocess
import sys
import tempfile

from hypothesis import strategies as st

from vlib.core import Violation, digest, VERIF
from vlib import mibgen, setcheck, fixtures, pipeline

ID = 'C12'
LEVEL = 'exploration'
RULE = ('Hypothesis draws histories of 4-14 steps over long-lived objects: parse a well-formed text, parse a '
        'malformed text (truncated anywhere incl. inside MACRO bodies, comments and quoted strings; token mutants; '
        'illegal characters), generate symbol table + JSON / pysnmp for a module with or without MODULE-IDENTITY / '
        'REVISION / tables / enumerated type chains, repeat the previous generation on the same tree, compile() a '
        'set with good and bad members on one MibCompiler. Non-trivial: a history with >= 1 failing step followed by '
        '>= 1 successful one, or a module without revisions generated after one with. Hash seeds: 5 (quick) / 24 '
        '(thorough) PYTHONHASHSEED values x a generated corpus of module sets; each (seed, corpus) digest set is one case. '
        'Histories also present other editions of modules already seen (fixed module names, sequential identifiers), '
        'modules absent in one step and present in a later one, another template / text filter for one call. One '
        'generation in five (and one bad compile() member in four) is of a module that parses but fails in code '
        'generation: SYNTAX type, OID parent or AUGMENTS target declared nowhere.')
ASSUMPTIONS = [
    'fresh instances are the reference: the property is a differential between a used and a brand-new object',
    'a code generator may normalise the tree it is given, but a repeated run on the same tree must give the same output',
    'time / host comments are pinned by passing fixed comments (code generators) and patching time (compile)',
]

DIALECTS = ('smiV2', 'smiV1', 'smiV1Relaxed')

GOOD_PROFILE = None


def _profile(sequential=False):
    return setcheck.profile_for(None, backends=('json', 'pysnmp'), dialects=('v2', 'v2', 'v1'), modules=(1, 1),
                                decls=(2, 9), texts='plain', skipblocks=True, sequential_names=sequential)


BAD_SNIPPETS = ['X DEFINITIONS ::= BEGIN\n', 'X DEFINITIONS ::= BEGIN\nOBJECT-TYPE MACRO ::= BEGIN\n a\n b\n c\n',
                'X DEFINITIONS ::= BEGIN\n-- comment without end', 'X DEFINITIONS ::= BEGIN\na OBJECT-IDENTITY STATUS current DESCRIPTION "never\nclosed\n',
                'X DEFINITIONS ::= BEGIN\nEXPORTS a, b\nc, d', 'X DEFINITIONS ::= BEGIN\nT ::= CHOICE { a\n b\n', '\n\n\n$\n', 'FALSE', 'END',
                'X DEFINITIONS ::= BEGIN\n\n\n a OBJECT IDENTIFIER ::= { 1 99999999999999999999999 }\nEND\n']


EDITION_NAMES = ('ED1-MIB', 'ED2-MIB', 'ED3-MIB')


def _break(text, variant, v1):
    """A well-formed module text turned into one that parses but fails in code generation: declarations whose SYNTAX
    type, OID parent or AUGMENTS target is declared nowhere (they stay parked as forward references until the end of
    the module and then fail)."""
    acc = 'ACCESS read-only STATUS mandatory' if v1 else 'MAX-ACCESS read-only STATUS current'
    parent = '{ 1 3 6 1 4 1 99998 %d }'
    decls = []
    if variant & 1:
        decls.append('vfBrokenLeaf OBJECT-TYPE SYNTAX VfMissingType %s DESCRIPTION "x" ::= %s' % (acc, parent % 1))
    if variant & 2:
        decls.append('vfBrokenKid OBJECT-TYPE SYNTAX INTEGER %s DESCRIPTION "x" ::= { vfMissingParent 2 }' % acc)
    if variant & 4 and not v1:
        decls.append('vfBrokenRow OBJECT-TYPE SYNTAX VfBrokenRow MAX-ACCESS not-accessible STATUS current DESCRIPTION "x" '
                     'AUGMENTS { vfMissingRow } ::= %s\nVfBrokenRow ::= SEQUENCE { vfBrokenCol INTEGER }' % (parent % 3))
    if not decls:
        decls.append('VfBrokenType ::= VfMissingBase')
    cut = text.rstrip().rindex('END')
    return text[:cut] + '\n'.join(decls) + '\n' + text[cut:]


def _as_editions(mset):
    """Rename the modules of a set to fixed names, so that later steps of a history hand the long-lived objects a
    *different edition of a module they have already seen* (same name, other content)."""
    text = json.dumps(mset)
    for i, m in enumerate(mset['modules']):
        text = text.replace(json.dumps(m['name']), json.dumps(EDITION_NAMES[i]))
    return json.loads(text)


@st.composite
def steps(draw):
    kind = draw(st.sampled_from(('parse-good', 'parse-bad', 'parse-bad', 'gen-json', 'gen-json', 'gen-pysnmp', 'repeat', 'compile',
                                 'gen-editions', 'gen-editions')))
    if kind == 'gen-editions':
        # two editions of one module (same module name, same identifiers, other definitions) through the same generator
        prof = setcheck.profile_for(None, backends=('json', 'pysnmp'), dialects=('v2',), modules=(1, 1), decls=(3, 8),
                                    texts='short', skipblocks=False, sequential_names=True,
                                    kinds=('type', 'typefam', 'scalar', 'scalar', 'scalar', 'table'))
        backend = draw(st.sampled_from(('json', 'json', 'pysnmp')))
        out = []
        for i in range(draw(st.integers(2, 4))):
            ms = _as_editions(draw(mibgen.module_sets(prof)))
            out.append({'k': 'gen', 'backend': backend, 'mod': ms['modules'][0], 'genTexts': False, 'keepLayout': False})
        return out
    if kind == 'parse-good':
        m = draw(mibgen.module_sets(_profile()))['modules'][0]
        toks, _ = mibgen.module_tokens(m)
        text, _ = mibgen.join_tokens(toks, draw(mibgen.layouts(len(toks))))
        return {'k': 'parse', 'text': text, 'dialect': 'smiV1' if m['dialect'] == 'v1' else draw(st.sampled_from(DIALECTS))}
    if kind == 'parse-bad':
        r = draw(st.integers(0, 2))
        if r == 0:
            return {'k': 'parse', 'text': draw(st.sampled_from(BAD_SNIPPETS)), 'dialect': draw(st.sampled_from(DIALECTS))}
        m = draw(mibgen.module_sets(_profile()))['modules'][0]
        text = mibgen.render_simple(m)
        if r == 1:
            cut = draw(st.integers(1, max(1, len(text) - 2)))
            text = text[:cut]
        else:
            pos = draw(st.integers(0, len(text) - 1))
            text = text[:pos] + draw(st.sampled_from(('$', ' FALSE ', ' . ', '"', ' 99999999999999999999999 '))) + text[pos:]
        return {'k': 'parse', 'text': text, 'dialect': 'smiV1' if m['dialect'] == 'v1' else 'smiV2'}
    if kind in ('gen-json', 'gen-pysnmp'):
        edition = draw(st.booleans())
        ms = draw(mibgen.module_sets(_profile(sequential=edition)))
        if edition:
            ms = _as_editions(ms)
        return {'k': 'gen', 'backend': 'json' if kind == 'gen-json' else 'pysnmp', 'mod': ms['modules'][0],
                'genTexts': draw(st.booleans()), 'keepLayout': draw(st.integers(0, 2)) == 0,
                # one generation in five is of a module that parses but cannot be resolved (semantic failure)
                'broken': draw(st.integers(0, 7)) if draw(st.integers(0, 4)) == 0 else None,
                # another template shipped with the package, for this call only
                'template': draw(st.sampled_from((None, None, None, 'pysnmp/managed-objects-instances.j2'))) if kind == 'gen-pysnmp' else None}
    if kind == 'repeat':
        return {'k': 'repeat'}
    edition = bool(draw(st.integers(0, 2)))
    ms = draw(mibgen.module_sets(setcheck.profile_for(None, backends=('json',), dialects=('v2',), modules=(1, 2),
                                                       decls=(1, 5), texts='short', skipblocks=False,
                                                       sequential_names=edition)))
    if edition:
        ms = _as_editions(ms)
    bad = draw(st.sampled_from((None, None, None, 'trunc', 'lex', 'absent', 'semantic')))
    return {'k': 'compile', 'mset': ms, 'bad': bad, 'ignoreErrors': draw(st.booleans())}


@st.composite
def histories(draw):
    flat = []
    for s_ in draw(st.lists(steps(), min_size=4, max_size=14)):
        flat += s_ if isinstance(s_, list) else [s_]
    return {'steps': flat}


def _parse_outcome(parser, text):
    from pysmi import error
    try:
        return ('ok', mibgen.normalize_tree(parser.parse(text)))
    except error.PySmiLexerError as e:
        return ('err', type(e).__name__, e.lineno, e.msg)
    except Exception as e:
        return ('foreign', type(e).__module__ + '.' + type(e).__name__, str(e)[:80])


def _info(info):
    return {'name': info.name, 'identity': getattr(info, 'identity', None), 'revision': getattr(info, 'revision', None),
            'oids': sorted(getattr(info, 'oids', None) or ()), 'enterprise': getattr(info, 'enterprise', None),
            'compliance': sorted(getattr(info, 'compliance', None) or ()), 'imported': list(getattr(info, 'imported', ()) or ())}


def _identity_filter(symbol, text):
    return text


def _gen(symgen, codegen, tree, genTexts, keep=False, template=None):
    """symtable + codegen on deep copies of `tree`; returns comparable outcome."""
    from pysmi import error
    t = copy.deepcopy(tree)
    st_ = fixtures.symtables()
    kw = {'textFilter': _identity_filter} if keep else {}
    if template:
        kw['dstTemplate'] = template
    try:
        sinfo, s = symgen.genCode(t, st_, genTexts=genTexts)
        st_[sinfo.name] = s
        info, text = codegen.genCode(t, st_, genTexts=genTexts, comments=['c'], **kw)
        return ('ok', _info(sinfo), _info(info), text), (t, st_)
    except error.PySmiError as e:
        return ('err', type(e).__name__, e.msg), None
    except Exception as e:
        return ('foreign', repr(e)[:200]), None


def _compile(comp_factory, step):
    import pysmi.compiler as pc
    texts = {}
    for m in step['mset']['modules']:
        texts[m['name']] = mibgen.render_simple(m)
    names = [m['name'] for m in step['mset']['modules']]
    if step['bad'] == 'trunc':
        texts[names[0]] = texts[names[0]][:len(texts[names[0]]) // 2]
    elif step['bad'] == 'lex':
        texts[names[0]] = texts[names[0]].replace('::=', '::= $', 1)
    elif step['bad'] == 'semantic':
        texts[names[0]] = _break(texts[names[0]], 1 + len(texts[names[0]]) % 7, False)
    elif step['bad'] == 'absent':
        del texts[names[0]]      # no source holds it in this step (a later step may find it again)
    written = {}
    comp = comp_factory(texts, written)

    class FakeTime(object):
        @staticmethod
        def asctime():
            return 'Thu Jan  1 00:00:00 1970'
    real = pc.time
    pc.time = FakeTime
    try:
        res = comp.compile(*names, ignoreErrors=step['ignoreErrors'])
    except Exception as e:
        return ('raised', repr(e)[:200])
    finally:
        pc.time = real
    out = {}
    for k, v in res.items():
        out[k] = [str(v), type(getattr(v, 'error', None)).__name__, getattr(getattr(v, 'error', None), 'lineno', None),
                  getattr(v, 'revision', None), sorted(getattr(v, 'oids', None) or ()), getattr(v, 'identity', None)]
    return ('ok', out, dict(written))


def history_prop(case, rec):
    from pysmi.parser.smi import parserFactory
    from pysmi.parser import dialect as dl
    from pysmi.codegen.symtable import SymtableCodeGen
    from pysmi.codegen.jsondoc import JsonCodeGen
    from pysmi.codegen.pysnmp import PySnmpCodeGen
    from pysmi.compiler import MibCompiler
    from pysmi.reader.callback import CallbackReader
    from pysmi.writer.callback import CallbackWriter
    from pysmi.searcher.stub import StubSearcher
    pipeline.install_jinja_cache()
    old_parsers = dict((d, parserFactory(**getattr(dl, d))()) for d in DIALECTS)
    old_sym, old_json, old_py = SymtableCodeGen(), JsonCodeGen(), PySnmpCodeGen()
    box = {}

    def reader(name, ctx_):
        t = box['texts']
        if name in t:
            return t[name]
        if name in fixtures.available():
            return fixtures.text(name)
        return ''

    old_comp = MibCompiler(old_parsers['smiV1Relaxed'], old_json, CallbackWriter(lambda n, d, c: box['written'].__setitem__(n, d)))
    old_comp.addSources(CallbackReader(reader))
    old_comp.addSearchers(StubSearcher(*fixtures.BASE_MODULES))

    def old_factory(texts, written):
        box['texts'] = texts
        box['written'] = written
        return old_comp

    def new_factory(texts, written):
        c = MibCompiler(parserFactory(**dl.smiV1Relaxed)(), JsonCodeGen(), CallbackWriter(lambda n, d, c_: written.__setitem__(n, d)))
        c.addSources(CallbackReader(lambda n, c_: texts.get(n) or (fixtures.text(n) if n in fixtures.available() else '')))
        c.addSearchers(StubSearcher(*fixtures.BASE_MODULES))
        return c

    failed_before = False
    fail_then_ok = False
    rev_then_none = False
    seen_rev = False
    last_gen = None
    for i, step in enumerate(case['steps']):
        rec.evaluated()
        rec.count('step.' + step['k'])
        if step['k'] == 'parse':
            got = _parse_outcome(old_parsers[step['dialect']], step['text'])
            ref = _parse_outcome(parserFactory(**getattr(dl, step['dialect']))(), step['text'])
            if got != ref:
                raise Violation('parser-state-leak', 'step %d (%s): used parser %r, fresh parser %r' % (
                    i, step['dialect'], _short(got), _short(ref)), case, {'step': i, 'text': step['text']})
            if got[0] == 'ok':
                fail_then_ok = fail_then_ok or failed_before
            else:
                failed_before = True
                rec.count('parse.rejected')
        elif step['k'] in ('gen', 'repeat'):
            if step['k'] == 'repeat':
                if last_gen is None:
                    continue
                step, tree = last_gen
                rec.count('repeat.executed')
            else:
                text = mibgen.render_simple(step['mod'])
                if step.get('broken') is not None:
                    text = _break(text, step['broken'], step['mod']['dialect'] == 'v1')
                    rec.count('gen.semantically-broken')
                tree = parserFactory(**(dl.smiV1 if step['mod']['dialect'] == 'v1' else dl.smiV2))().parse(text)[0]
                last_gen = (step, tree)
            cg_old = old_json if step['backend'] == 'json' else old_py
            got, _ = _gen(old_sym, cg_old, tree, step['genTexts'], step.get('keepLayout'), step.get('template'))
            ref, _ = _gen(SymtableCodeGen(), JsonCodeGen() if step['backend'] == 'json' else PySnmpCodeGen(), tree, step['genTexts'],
                          step.get('keepLayout'), step.get('template'))
            if step.get('template'):
                rec.count('gen.other-template')
            if got != ref:
                raise Violation('codegen-state-leak', 'step %d (%s): %s' % (i, step['backend'], _diff(got, ref)), case,
                                {'step': i, 'text': mibgen.render_simple(step['mod']), 'broken': step.get('broken')})
            has_rev = any(d['k'] == 'mi' and d['revisions'] for d in step['mod']['decls'])
            if has_rev:
                seen_rev = True
            elif seen_rev:
                rev_then_none = True
            if got[0] == 'ok':
                fail_then_ok = fail_then_ok or failed_before
            else:
                failed_before = True
        elif step['k'] == 'compile':
            got = _compile(old_factory, step)
            ref = _compile(new_factory, step)
            if got != ref:
                raise Violation('compiler-state-leak', 'step %d: %s' % (i, _diff(got, ref)), case, {'step': i})
            if step['bad']:
                failed_before = True
            else:
                fail_then_ok = fail_then_ok or failed_before
    if fail_then_ok or rev_then_none:
        rec.mark_nontrivial(digest(case))
    if fail_then_ok:
        rec.count('history.success-after-failure')
    if rev_then_none:
        rec.count('history.no-revision-after-revision')
    rec.sample({'steps': [dict((k, (v if k != 'mod' and k != 'mset' else '<model>')) for k, v in s.items()) for s in case['steps']][:8]})


def _short(o):
    s = repr(o)
    return s if len(s) < 300 else s[:300] + '...'


def _diff(a, b):
    if a[0] != b[0] or a[0] != 'ok':
        return 'used %s vs fresh %s' % (_short(a), _short(b))
    for i, (x, y) in enumerate(zip(a[1:], b[1:])):
        if x != y:
            if isinstance(x, dict) and isinstance(y, dict):
                keys = [k for k in set(x) | set(y) if x.get(k) != y.get(k)]
                return 'part %d keys %r: used %s vs fresh %s' % (i, keys, _short(dict((k, x.get(k)) for k in keys)),
                                                                  _short(dict((k, y.get(k)) for k in keys)))
            if isinstance(x, str) and isinstance(y, str):
                for j, (c1, c2) in enumerate(zip(x, y)):
                    if c1 != c2:
                        return 'part %d differs at char %d: used %r vs fresh %r' % (i, j, x[max(0, j - 60):j + 60], y[max(0, j - 60):j + 60])
                return 'part %d length %d vs %d' % (i, len(x), len(y))
            return 'part %d: used %s vs fresh %s' % (i, _short(x), _short(y))
    return 'equal?'


# ---------------------------------------------------------------------------
# hash seeds

CHILD = r'''
import sys, json, hashlib
sys.path.insert(0, %(lib)r)
from vlib import core
core.bootstrap()
from vlib import pipeline, mibgen
corpus = json.load(open(sys.argv[1]))
out = {}
extra = json.load(open(sys.argv[2])) if len(sys.argv) > 2 else []
if extra:
    import copy
    from vlib import fixtures
    from pysmi.codegen.symtable import SymtableCodeGen
    from pysmi.codegen.jsondoc import JsonCodeGen
    from pysmi.codegen.pysnmp import PySnmpCodeGen
    for i, text in enumerate(extra):
        try:
            tree = pipeline.parser('smiV1Relaxed').parse(text)[0]
            st_ = fixtures.symtables()
            info, s = SymtableCodeGen().genCode(tree, st_)
            st_[info.name] = s
            for label, gen in (('json', JsonCodeGen), ('pysnmp', PySnmpCodeGen)):
                try:
                    inf, txt = gen().genCode(copy.deepcopy(tree), st_, genTexts=True, comments=['c'])
                    out['x%%d/%%s' %% (i, label)] = hashlib.sha256(txt.encode()).hexdigest()
                except Exception as e:
                    out['x%%d/%%s' %% (i, label)] = 'error:' + type(e).__name__ + ':' + str(e)[:60]
        except Exception as e:
            out['x%%d' %% i] = 'error:' + type(e).__name__
for i, mset in enumerate(corpus):
    c = pipeline.run_set(mset, backends=('json', 'pysnmp'), genTexts=True)
    for name in sorted(c.texts):
        key = '%%d/%%s' %% (i, name)
        out[key + '/tree'] = hashlib.sha256(repr(mibgen.normalize_tree(c.trees.get(name))).encode()).hexdigest()
        out[key + '/json'] = hashlib.sha256(c.json_text.get(name, '').encode()).hexdigest()
        out[key + '/pysnmp'] = hashlib.sha256(c.py_text.get(name, '').encode()).hexdigest()
        inf = c.json_info.get(name)
        if inf is not None:
            summ = [inf.name, inf.identity, inf.revision, sorted(inf.oids or ()), inf.enterprise, list(inf.compliance or ()), list(inf.imported or ())]
            out[key + '/info'] = hashlib.sha256(repr(summ).encode()).hexdigest()
    for k, e in sorted(c.errors.items()):
        out['%%d/%%s/%%s/error' %% (i, k[0], k[1])] = type(e).__name__
print(json.dumps(out, sort_keys=True))
'''


# hand-written texts for constructs the model-based generator does not produce (tolerated "buggy MIB" notations,
# several imports of one module, many labels) - compiled under every hash seed together with the generated corpus
EXTRA_TEXTS = [
    '''HX1-MIB DEFINITIONS ::= BEGIN
IMPORTS OBJECT-TYPE, Integer32, Counter32, enterprises FROM SNMPv2-SMI DisplayString, TruthValue, RowStatus FROM SNMPv2-TC
  OBJECT-GROUP FROM SNMPv2-CONF OBJECT-TYPE FROM SNMPv2-SMI;
speed OBJECT-TYPE SYNTAX INTEGER { slow(1), medium(2), fast(3), turbo(4), ludicrous(5), zero(0) } MAX-ACCESS read-write
  STATUS current DESCRIPTION "d" DEFVAL { { turbo, slow, fast, medium } } ::= { enterprises 9 1 }
flags OBJECT-TYPE SYNTAX BITS { a(0), b(1), c(2), d(3), e(4), f(5), g(6) } MAX-ACCESS read-write STATUS current
  DESCRIPTION "d" DEFVAL { { g, a, c, e } } ::= { enterprises 9 2 }
grp OBJECT-GROUP OBJECTS { speed, flags } STATUS current DESCRIPTION "g" ::= { enterprises 9 3 }
END
''',
    '''HX2-MIB DEFINITIONS ::= BEGIN
IMPORTS OBJECT-TYPE, Counter, Gauge, TimeTicks, IpAddress, NetworkAddress, enterprises, mgmt, internet FROM RFC1155-SMI
  OBJECT-TYPE FROM RFC-1212 TRAP-TYPE FROM RFC-1215 DisplayString, PhysAddress, mib-2, sysDescr, ifIndex FROM RFC1213-MIB;
base OBJECT IDENTIFIER ::= { enterprises 77 }
c1 OBJECT-TYPE SYNTAX Counter ACCESS read-only STATUS mandatory ::= { base 1 }
g1 OBJECT-TYPE SYNTAX Gauge ACCESS read-only STATUS mandatory ::= { base 2 }
n1 OBJECT-TYPE SYNTAX NetworkAddress ACCESS read-only STATUS mandatory ::= { base 3 }
tr TRAP-TYPE ENTERPRISE base VARIABLES { c1, g1, n1, sysDescr, ifIndex } DESCRIPTION "t" ::= 7
END
''',
]


def hashseed_sweep(ctx):
    import hypothesis
    from hypothesis import settings, given, HealthCheck
    nsets = ctx.pick(50, 300)
    seeds = list(range(8)) if ctx.quick else list(range(24))
    corpus = []
    prof = setcheck.profile_for(None, backends=('json', 'pysnmp'), dialects=('v2', 'v2', 'v1'), modules=(1, 3), decls=(3, 12),
                                texts='short', skipblocks=True)
    # second half: many type declarations in shuffled order (several symbols waiting for the same later declaration,
    # resolved in one round of the symbol-table generator) - the shape where iteration over an unordered container shows
    prof2 = setcheck.profile_for(None, backends=('json', 'pysnmp'), dialects=('v2',), modules=(1, 2), decls=(8, 16),
                                 texts='short', skipblocks=False, kinds=('type', 'type', 'typefam', 'typefam', 'scalar', 'value', 'table'))

    for k, pr in enumerate((prof, prof2)):
        @hypothesis.seed(ctx.seed * 977 + 5 + k)
        @settings(max_examples=nsets, database=None, deadline=None, suppress_health_check=list(HealthCheck),
                  phases=[hypothesis.Phase.generate])
        @given(mibgen.module_sets(pr))
        def collect(ms):
            corpus.append(ms)
        collect()
    tmp = tempfile.mkdtemp(prefix='c12h')
    try:
        cpath = os.path.join(tmp, 'corpus.json')
        with open(cpath, 'w') as f:
            json.dump(corpus, f)
        script = os.path.join(tmp, 'child.py')
        with open(script, 'w') as f:
            f.write(CHILD % {'lib': os.path.join(VERIF, 'lib')})
        xpath = os.path.join(tmp, 'extra.json')
        with open(xpath, 'w') as f:
            json.dump(EXTRA_TEXTS, f)
        procs = []
        for s in seeds:
            env = dict(os.environ, PYTHONHASHSEED=str(s), TZ='UTC')
            procs.append((s, subprocess.Popen([sys.executable, script, cpath, xpath], env=env, stdout=subprocess.PIPE, stderr=subprocess.PIPE)))
        results = {}
        for s, p in procs:
            o, e = p.communicate()
            if p.returncode != 0:
                from vlib.core import HarnessError
                raise HarnessError('hash-seed child %d failed: %s' % (s, e.decode()[-800:]))
            results[s] = json.loads(o.decode())
        ref = results[seeds[0]]
        ctx.evaluations += len(seeds) * len(ref)
        ctx.counters['hashseed.seeds'] = len(seeds)
        ctx.counters['hashseed.module-sets'] = len(corpus)
        ctx.counters['hashseed.digests-per-seed'] = len(ref)
        for s in seeds:
            ctx.nontrivial.add(digest(['hashseed', s, sorted(ref)]))
        for s in seeds[1:]:
            if results[s] != ref:
                keys = sorted(k for k in set(ref) | set(results[s]) if ref.get(k) != results[s].get(k))
                first = keys[0].split('/')[0]
                if first.startswith('x'):
                    culprit = {'text': EXTRA_TEXTS[int(first[1:])]}
                else:
                    culprit = {'mset': corpus[int(first)]}
                ctx.failures.append({'facet': 'hash-seed-dependence',
                                     'detail': 'PYTHONHASHSEED=%d vs %d differ in %d outputs, first: %r' % (seeds[0], s, len(keys), keys[:4]),
                                     'case': dict(culprit, hashseed=[seeds[0], s], keys=keys[:10]), 'extra': None,
                                     'search': 'hashseed'})
                break
        ctx.samples.append({'facet': 'hashseed', 'case': {'seeds': seeds, 'sets': len(corpus), 'digests': dict(list(ref.items())[:4])}})
    finally:
        import shutil
        shutil.rmtree(tmp, ignore_errors=True)


def probes(ctx):
    def p(rec):
        from pysmi.parser.smi import parserFactory
        from pysmi.parser import dialect as dl
        from pysmi.codegen.symtable import SymtableCodeGen
        from pysmi.codegen.jsondoc import JsonCodeGen
        # D04: good text after a text that died inside a MACRO
        par = parserFactory(**dl.smiV2)()
        a = _parse_outcome(par, BAD_SNIPPETS[1])
        b = _parse_outcome(par, 'X DEFINITIONS ::= BEGIN\na OBJECT IDENTIFIER ::= { 1 3 }\nEND\n')
        ctx.probe('D04', b[0] != 'ok')
        # D05: module without REVISION after one with
        with_rev = 'A-MIB DEFINITIONS ::= BEGIN IMPORTS MODULE-IDENTITY FROM SNMPv2-SMI; m MODULE-IDENTITY LAST-UPDATED "200001010000Z" ORGANIZATION "o" CONTACT-INFO "c" DESCRIPTION "d" REVISION "200001010000Z" DESCRIPTION "r" ::= { 1 3 1 } END'
        without = 'B-MIB DEFINITIONS ::= BEGIN b OBJECT IDENTIFIER ::= { 1 3 2 } END'
        sg, jg = SymtableCodeGen(), JsonCodeGen()
        revs = []
        for text in (with_rev, without):
            tree = parserFactory(**dl.smiV2)().parse(text)[0]
            st_ = fixtures.symtables()
            si, s = sg.genCode(tree, st_)
            st_[si.name] = s
            ji, _ = jg.genCode(tree, st_)
            revs.append((si.revision, ji.revision))
        ctx.probe('D05', revs[1] != (None, None))
        rec.evaluated(2)
    ctx.inline('probe', p)


def run(ctx):
    ctx.search('histories', histories, history_prop, ctx.pick(400, 8000))
    hashseed_sweep(ctx)
    probes(ctx)


def replay(ctx, data):
    from vlib.core import Recorder
    case = data['case']
    if 'steps' in case:
        history_prop(case, Recorder(ctx.findings))
    else:
        raise Violation(data['facet'], 'hash-seed case: re-run the check (child interpreters are needed)', case)
