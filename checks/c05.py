"""C05 - types, constraints and default values survive compilation exactly.

Oracle: reference model (`oracle.expected_syntax` / `expected_default`): parent type name, every range / SIZE
alternative in order with the integers the literals denote (dec / hex / bin), enumeration label->value, BITS
name->position; DEFVAL value in the form of the resolved base type - against the JSON members and against the
subtypeSpec / namedValues / default* attributes captured by the recording builder.
"""
from hypothesis import strategies as st

from vlib import mibgen, setcheck

ID = 'C05'
LEVEL = 'exploration'
RULE = ('Hypothesis draws modules (1-3 per set, SMIv2 and SMIv1) of objects, table columns, type assignments and '
        'textual conventions over every built-in and application type, with inline range / SIZE / enumeration / '
        'BITS refinements (1-4 alternatives, numbers from the token-class boundaries 0, +-1, +-(2^31-1), -2^31, '
        '2^32-1, 2^32, 2^63, 2^64-1 spelled decimal, hex or binary with leading zeros), chains of derived types '
        'within and across modules, forward type references, and every DEFVAL notation compatible with the '
        'resolved base type. Non-trivial: a refinement with >= 2 alternatives including a non-decimal, negative '
        'or > 32-bit literal, or a DEFVAL on a type resolved through a chain of length >= 1. Distinct = model hash.')
ASSUMPTIONS = [
    'JSON spells built-in parent types as the token does (INTEGER, OCTET STRING, ...), NetworkAddress as IpAddress; '
    'pysnmp uses the class names (Integer32, OctetString, Counter32 for Counter, ...)',
    'the JSON default may be nested as default.default or flat; only basetype class / format / value are compared',
    'a binary DEFVAL on a string type is compared as the hex digits of the same octets, case-insensitively',
    'DEFVALs are generated only where they satisfy the constraints in force (a well-formed MIB)',
]

FACETS = ('compile-failed', 'syntax', 'type', 'default')


def _profile(backends=('json', 'pysnmp')):
    return setcheck.profile_for(None, backends=backends, dialects=('v2', 'v2', 'v2', 'v1'),
                                modules=(1, 3), decls=(3, 14), texts='short', skipblocks=False,
                                kinds=('scalar', 'scalar', 'type', 'type', 'table', 'value'))


@st.composite
def cases(draw):
    return {'mset': draw(mibgen.module_sets(_profile()))}


@st.composite
def json_cases(draw):
    # JSON-only routes: the classes excluded for open findings of the pysnmp backend are generated here
    return {'mset': draw(mibgen.module_sets(_profile(('json',))))}


def _nontrivial(mset):
    for m in mset['modules']:
        for d in m['decls']:
            syn = d.get('syntax')
            if not isinstance(syn, dict):
                continue
            sub = syn.get('sub')
            if sub and sub[0] in ('range', 'size') and len(sub[1]) >= 2:
                for r in sub[1]:
                    for n in r:
                        if n['t'].startswith("'") or n['v'] < 0 or n['v'] > 4294967295:
                            return True
            if d.get('defval') and (d.get('info') or {}).get('chain', 0) >= 1:
                return True
    return False


def prop(case, rec, backends=('json', 'pysnmp')):
    mset = case['mset']
    c, mm = setcheck.evaluate(mset, backends=backends)
    rec.evaluated()
    setcheck.classify_set(mset, rec)
    for m in mset['modules']:
        for d in m['decls']:
            if d.get('defval'):
                rec.count('defval.' + d['defval']['f'])
            syn = d.get('syntax')
            if isinstance(syn, dict) and syn.get('sub'):
                rec.count('refinement.' + syn['sub'][0])
            if isinstance(syn, dict) and isinstance(syn['base'], list) and syn['base'][0] == 'named':
                rec.count('named-parent.' + ('foreign' if syn['base'][2] != m['name'] else 'local'))
        if mibgen.type_chain_forward_depth(m) >= 2:
            rec.count('forward-type-chain>=2')
    if _nontrivial(mset):
        rec.mark_nontrivial(setcheck.set_digest(mset))
    for b_, f_, d_ in mm:
        if f_ in ('py-syntax', 'py-exec'):
            rec.count('pysnmp-module-not-executable(C04)')
    setcheck.raise_first(mm, FACETS, case, c)
    rec.sample({'texts': dict((k, v[:900]) for k, v in c.texts.items())})


def json_prop(case, rec):
    prop(case, rec, backends=('json',))


PROBE_D33 = {'modules': [{'name': 'T-MIB', 'dialect': 'v2', 'exports': None,
                          'imports': [['SNMPv2-SMI', ['OBJECT-TYPE']]],
                          'decls': [{'k': 'ot', 'role': 'scalar', 'name': 'bitsObj',
                                     'syntax': {'base': 'BITS', 'sub': ['bits', [['a', 0], ['b', 1]]], 'tag': None},
                                     'units': None, 'access': 'read-only', 'status': 'current', 'descr': 'd',
                                     'ref': None, 'augments': None, 'index': None,
                                     'defval': {'f': 'bits', 'names': [], 't': None},
                                     'oid': {'first': ['num', 1], 'arcs': [['n', 3]]}, 'num': [1, 3],
                                     'info': {'kind': 'bits', 'enum': None, 'bits': [['a', 0], ['b', 1]], 'chain': 0}}]}]}


def probes(ctx):
    def p(rec):
        c, mm = setcheck.evaluate(PROBE_D33, backends=('json',))
        rec.evaluated()
        ctx.probe('D33', any(f == 'default' for b, f, d in mm))
    ctx.inline('probe', p)


def compile_prop(case, rec):
    """The same oracle on the documents one MibCompiler.compile() call writes for the whole set (shared parser,
    symbol-table generator and code generator objects across the modules)."""
    from vlib.core import Violation
    mset = case['mset']
    texts, mm = setcheck.evaluate_compile(mset, genTexts=bool(case.get('genTexts')))
    rec.evaluated()
    rec.count('compile-route.sets')
    if len(mset['modules']) > 1:
        rec.mark_nontrivial(setcheck.set_digest(['compile', mset]))
    for backend, facet, detail in mm:
        root = facet.split('.')[0]
        if facet in FACETS or root in FACETS:
            raise Violation('%s:%s' % (backend, facet), detail, case, {'texts': texts})


def run(ctx):
    probes(ctx)
    ctx.search('both', cases, prop, ctx.pick(2400, 50000))
    ctx.search('json', json_cases, json_prop, ctx.pick(1600, 50000))
    ctx.search('compile', json_cases, compile_prop, ctx.pick(1200, 30000))


def replay(ctx, data):
    from vlib.core import Recorder
    if data.get('search') == 'compile':
        compile_prop(data['case'], Recorder(ctx.findings))
    else:
        prop(data['case'], Recorder(ctx.findings))
