"""C18 - the OID-to-module index covers every indexed OID and merges monotonically.

Oracle (validity predicates over the JSON text returned by JsonCodeGen.genIndex / written by buildIndex):
valid JSON; every OID a module defines is covered by a key of `oids` that is a component-wise prefix of it and
lists that module; a module is listed only under OIDs it defines; identity / enterprise / compliance list each
module under exactly its values; index k+1 built on top of index k provides everything index k provided;
re-indexing the same results gives byte-identical text.
"""
import itertools
import json
import os
import shutil
import tempfile

from hypothesis import strategies as st

from vlib.core import Violation, digest

ID = 'C18'
LEVEL = 'exploration'
RULE = ('Hypothesis draws histories of 1-4 incremental index builds; each batch holds 1-4 module statuses '
        '(compiled / untouched / failed / missing / borrowed) whose OID sets are built to collide: siblings whose '
        'last arc shares decimal digits (4 / 48 / 481, 1 / 10 / 100), nested and overlapping subtrees shared by '
        'several modules, identical OIDs in two modules; identity / enterprise / compliance present or absent; '
        'batches may repeat. A fraction runs end-to-end through MibCompiler.buildIndex with a real FileWriter. '
        'Non-trivial: a batch with two OIDs where one is a decimal-string prefix but not a component prefix of the '
        'other, or a merge step adding a module under an existing key. A small scope (2 modules x <= 2 OIDs from 8 '
        'confusable OIDs x {one batch, two batches, repeated batch}) is enumerated completely.')
ASSUMPTIONS = [
    'status objects expose oids / identity / enterprise / compliance the way MibCompiler.compile() sets them',
    'the same comments are passed on every build, so idempotence can be judged on the bytes',
]

ARCS = (1, 4, 48, 481, 10, 100, 2, 3)
ROOTS = ('1.3', '1.3.6.1.4.1', '1.34', '2', '1.3.6.1.2.1')
POOL = ['1.3.4', '1.3.48', '1.3.4.1', '1.3.48.1', '1.3.481', '1.34', '1.3', '1.3.4.8']


@st.composite
def oid(draw):
    root = draw(st.sampled_from(ROOTS))
    n = draw(st.integers(0, 3))
    arcs = [str(draw(st.sampled_from(ARCS))) for i in range(n)]
    return '.'.join([root] + arcs)


@st.composite
def status(draw):
    kind = draw(st.sampled_from(('compiled', 'compiled', 'compiled', 'borrowed', 'untouched', 'failed', 'missing')))
    if kind != 'compiled':
        return {'status': kind}
    oids = draw(st.lists(st.one_of(oid(), st.sampled_from(POOL)), min_size=0, max_size=6, unique=True))
    ent = None
    under = [o for o in oids if o.startswith('1.3.6.1.4.1.')]
    if under:
        ent = '.'.join(under[0].split('.')[:7])
    ident = draw(st.sampled_from(oids)) if oids and draw(st.booleans()) else None
    comp = draw(st.lists(st.sampled_from(oids), max_size=2, unique=True)) if oids else []
    return {'status': 'compiled', 'oids': oids, 'identity': ident, 'enterprise': ent, 'compliance': comp}


MODS = ('A-MIB', 'B-MIB', 'C-MIB', 'D-MIB', 'E-MIB')


@st.composite
def histories(draw):
    nb = draw(st.integers(1, 4))
    batches = []
    for i in range(nb):
        if batches and draw(st.integers(0, 4)) == 0:
            batches.append(draw(st.sampled_from(batches)))
            continue
        mods = draw(st.lists(st.sampled_from(MODS), min_size=1, max_size=4, unique=True))
        batches.append(dict((m, draw(status())) for m in mods))
    return {'batches': batches, 'via_compiler': draw(st.integers(0, 3)) == 0}


def _mk_processed(batch):
    from pysmi.compiler import MibStatus
    out = {}
    for m, s in batch.items():
        st_ = MibStatus(s['status'])
        if s['status'] == 'compiled':
            st_ = st_.setOptions(oids=set(s['oids']), identity=s['identity'], enterprise=s['enterprise'],
                                 compliance=list(s['compliance']), oid=None, revision=None, path='x', file='x', alias=m)
        out[m] = st_
    return out


def comp_prefix(p, o):
    a, b = p.split('.'), o.split('.')
    return len(a) <= len(b) and b[:len(a)] == a


def check_index(text, defined, sections, case, step):
    """defined: module -> set of OIDs (cumulative); sections: name -> {oid: set(modules)} (cumulative)."""
    try:
        doc = json.loads(text)
    except ValueError as e:
        raise Violation('index-not-json', '%s (step %d)' % (e, step), case, {'text': text[:500]})
    for sec in ('oids', 'identity', 'enterprise', 'compliance'):
        if not isinstance(doc.get(sec), dict):
            raise Violation('index-section-missing', '%s at step %d' % (sec, step), case, {'text': text[:500]})
    oids = doc['oids']
    for m, os_ in defined.items():
        for o in os_:
            if not any(comp_prefix(p, o) and m in mods for p, mods in oids.items()):
                raise Violation('oid-not-covered', 'step %d: %s defines %s but no component-wise prefix entry names it; '
                                'oids section: %r' % (step, m, o, oids), case, {'text': text[:1500]})
    for p, mods in oids.items():
        for m in mods:
            if p not in defined.get(m, ()):
                raise Violation('module-listed-under-foreign-oid', 'step %d: %s listed under %s which it does not define' % (
                    step, m, p), case, {'text': text[:1500]})
    for sec, want in sections.items():
        got = dict((k, set(v)) for k, v in doc[sec].items())
        wanted = dict((k, v) for k, v in want.items() if v)
        if got != wanted:
            raise Violation('section-' + sec, 'step %d: %s is %r, expected %r' % (step, sec, doc[sec], dict(
                (k, sorted(v)) for k, v in wanted.items())), case, {'text': text[:1500]})
    return doc


def prop(case, rec):
    from pysmi.codegen.jsondoc import JsonCodeGen
    defined = {}
    sections = {'identity': {}, 'enterprise': {}, 'compliance': {}}
    prev_text = ''
    prev_doc = None
    tmp = None
    comp = None
    nt = False
    try:
        if case.get('via_compiler'):
            from pysmi.compiler import MibCompiler
            from pysmi.writer.localfile import FileWriter
            import pysmi.compiler as pc
            tmp = tempfile.mkdtemp(prefix='c18')
            comp = MibCompiler(None, JsonCodeGen(), FileWriter(tmp).setOptions(suffix='.json'))

            class FakeTime(object):
                @staticmethod
                def asctime():
                    return 'Thu Jan  1 00:00:00 1970'
            real_time = pc.time
            pc.time = FakeTime
        for step, batch in enumerate(case['batches']):
            processed = _mk_processed(batch)
            for m, s in batch.items():
                if s['status'] != 'compiled':
                    continue
                for o in s['oids']:
                    if any(o != x and x.startswith(o) is False and o.startswith(x) and not comp_prefix(x, o) for x in s['oids']):
                        nt = True
                defined.setdefault(m, set()).update(s['oids'])
                if s['identity']:
                    sections['identity'].setdefault(s['identity'], set()).add(m)
                if s['enterprise']:
                    sections['enterprise'].setdefault(s['enterprise'], set()).add(m)
                for c in s['compliance']:
                    sections['compliance'].setdefault(c, set()).add(m)
            if comp is not None:
                comp.buildIndex(processed)
                with open(os.path.join(tmp, 'index.json')) as fh:
                    text = fh.read()
            else:
                text = JsonCodeGen().genIndex(processed, comments=['c'], old_index_data=prev_text)
            rec.evaluated()
            doc = check_index(text, defined, sections, case, step)
            if prev_doc is not None:
                if any(m in mods for p, mods in prev_doc['oids'].items() for m in batch if False):
                    pass
                for p, mods in prev_doc['oids'].items():
                    if p in doc['oids'] and set(doc['oids'][p]) - set(mods):
                        nt = True
            # idempotence: same batch again on top of this index
            if comp is not None:
                comp.buildIndex(processed)
                with open(os.path.join(tmp, 'index.json')) as fh:
                    again = fh.read()
            else:
                again = JsonCodeGen().genIndex(processed, comments=['c'], old_index_data=text)
            rec.evaluated()
            if again != text:
                raise Violation('reindex-not-idempotent', 'step %d: re-indexing the same results changed the index' % step,
                                case, {'first': text[:1200], 'second': again[:1200]})
            prev_text, prev_doc = text, doc
        rec.count('batches.%d' % len(case['batches']))
        rec.count('via.%s' % ('buildIndex' if comp is not None else 'genIndex'))
        if nt:
            rec.mark_nontrivial(digest(case))
            rec.count('confusable-or-merge')
        rec.sample({'batches': case['batches'], 'index': prev_text[:600]})
    finally:
        if comp is not None:
            pc.time = real_time
        if tmp:
            shutil.rmtree(tmp, ignore_errors=True)


def small_scope():
    opts = [()] + [(a,) for a in POOL] + list(itertools.combinations(POOL, 2))
    items = []
    for oa in opts[1:]:
        for ob in opts:
            sa = {'status': 'compiled', 'oids': list(oa), 'identity': None, 'enterprise': None, 'compliance': []}
            sb = {'status': 'compiled', 'oids': list(ob), 'identity': None, 'enterprise': None, 'compliance': []}
            items.append({'batches': [{'A-MIB': sa, 'B-MIB': sb}], 'via_compiler': False})
            items.append({'batches': [{'A-MIB': sa}, {'B-MIB': sb}], 'via_compiler': False})
            items.append({'batches': [{'A-MIB': sa}, {'A-MIB': sb}], 'via_compiler': False})
    return items


PROBE_D12 = {'batches': [{'A-MIB': {'status': 'compiled', 'oids': ['1.3.48'], 'identity': None, 'enterprise': None, 'compliance': []}},
                         {'A-MIB': {'status': 'compiled', 'oids': ['1.3.4'], 'identity': None, 'enterprise': None, 'compliance': []}}],
             'via_compiler': False}


def run(ctx):
    ctx.search('histories', histories, prop, ctx.pick(8000, 250000))
    items = small_scope()
    ctx.sweep('small-scope', items, prop)
    ctx.extra_cov['exhaustive_subdomain'] = 'small scope: %d histories (2 modules x <=2 OIDs of %r x 3 history shapes)' % (
        len(items), POOL)

    def p(rec):
        from vlib.core import Recorder
        bad = False
        try:
            prop(PROBE_D12, Recorder({}))
        except Violation:
            bad = True
        rec.evaluated()
        ctx.probe('D12', bad)
    ctx.inline('probe', p)


def replay(ctx, data):
    from vlib.core import Recorder
    prop(data['case'], Recorder(ctx.findings))
