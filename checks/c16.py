"""C16 - SMIv1 modules compile to the same objects as their SMIv2 transliteration.

Domain A (differential): a generated SMIv1 module set and its mechanical SMIv2 transliteration are compiled
separately; symbol sets, OIDs, class, nodetype, maxaccess, indices, objects (JSON) must agree, SMIv1 types must
map to Counter32 / Gauge32 / IpAddress / Integer32 in the executed pysnmp module, TRAP-TYPE must come out as a
notification at <enterprise>.0.<number>.
Domain B (exhaustive): for every (SMIv1 base module, symbol) pair of an RFC-derived reference table, a module
importing just that symbol must import it, in both outputs, from its SMIv2 home under its SMIv2 spelling.
"""
import copy

from hypothesis import strategies as st

from vlib.core import Violation, digest
from vlib import mibgen, setcheck, pipeline, fixtures, smiv1ref, oracle

ID = 'C16'
LEVEL = 'exploration'
RULE = ('A: Hypothesis draws SMIv1 module sets (1-2 modules; value declarations, scalars, tables, TRAP-TYPEs with '
        'VARIABLES, plain types over Counter / Gauge / NetworkAddress / INTEGER / OCTET STRING ...), each rendered as '
        'SMIv1 and as its SMIv2 transliteration; non-trivial = >= 1 SMIv1 application type and (a TRAP-TYPE with '
        'variables or a table). B: all (SMIv1 base module, symbol) pairs of the reference table (vlib/smiv1ref.py) '
        'are enumerated completely - each pair is one distinct non-trivial case; Hypothesis additionally draws IMPORTS '
        'sections with 2-5 such imports in any clause order (non-trivial: >= 2 base modules). A also compiles the SMIv1 '
        'text parsed with the smiV2 grammar.')
ASSUMPTIONS = [
    'the reference import table is transcribed from RFC 1155/1212/1213/1215/1158 and RFC 2578-2580, 3418, 2863, '
    '4293, 4022, 4113; symbols without an SMIv2 home (at*, egp*, ipRoute*) are not cases',
    'STATUS values are not compared (mandatory has no SMIv2 spelling)',
    'TRAP-TYPE may be imported under any SNMPv2-SMI spelling (it becomes a notification)',
]

V1_TO_V2_TYPE = {'Counter': 'Counter32', 'Gauge': 'Gauge32', 'NetworkAddress': 'IpAddress'}
V1_TO_V2_IMPORT = {('RFC1155-SMI', 'Counter'): ('SNMPv2-SMI', 'Counter32'), ('RFC1155-SMI', 'Gauge'): ('SNMPv2-SMI', 'Gauge32'),
                   ('RFC1155-SMI', 'NetworkAddress'): ('SNMPv2-SMI', 'IpAddress'),
                   ('RFC-1212', 'OBJECT-TYPE'): ('SNMPv2-SMI', 'OBJECT-TYPE'),
                   ('RFC-1215', 'TRAP-TYPE'): ('SNMPv2-SMI', 'NOTIFICATION-TYPE'),
                   ('RFC1213-MIB', 'DisplayString'): ('SNMPv2-TC', 'DisplayString'),
                   ('RFC1213-MIB', 'PhysAddress'): ('SNMPv2-TC', 'PhysAddress')}


def _profile():
    return setcheck.profile_for(None, backends=('json', 'pysnmp'), dialects=('v1',), modules=(1, 2), decls=(3, 14),
                                texts='short', skipblocks=False, kinds=('value', 'scalar', 'scalar', 'table', 'tt', 'tt', 'type'))


@st.composite
def cases(draw):
    return {'mset': draw(mibgen.module_sets(_profile()))}


def _v2_syntax(syn):
    if not syn:
        return syn
    syn = copy.deepcopy(syn)
    if isinstance(syn['base'], str):
        syn['base'] = V1_TO_V2_TYPE.get(syn['base'], syn['base'])
    return syn


def transliterate(mod):
    m = copy.deepcopy(mod)
    m['dialect'] = 'v2'
    imports = []
    for frm, syms in m['imports']:
        for s in syms:
            nm, ns = V1_TO_V2_IMPORT.get((frm, s)) or (smiv1ref.TABLE.get(frm, {}).get(s) if frm in ('RFC1213-MIB', 'RFC1158-MIB') else None) \
                or ('SNMPv2-SMI' if frm in ('RFC1155-SMI', 'RFC1065-SMI') else frm, s)
            hit = [c for c in imports if c[0] == nm]
            if hit:
                if ns not in hit[0][1]:
                    hit[0][1].append(ns)
            else:
                imports.append([nm, [ns]])
    m['imports'] = imports
    decls = []
    for d in m['decls']:
        if d['k'] == 'ot':
            d['syntax'] = _v2_syntax(d['syntax'])
            if d['descr'] is None:
                d['descr'] = None
        elif d['k'] == 'td':
            d['syntax'] = _v2_syntax(d['syntax'])
        elif d['k'] == 'seq':
            for mem in d['members']:
                kept = mem[1]['kept']
                if kept in V1_TO_V2_TYPE:
                    mem[1] = {'tokens': [V1_TO_V2_TYPE[kept]], 'kept': V1_TO_V2_TYPE[kept]}
        elif d['k'] == 'tt':
            d = {'k': 'nt', 'name': d['name'], 'objects': d['vars'], 'status': 'current',
                 'descr': d['descr'] if d['descr'] is not None else '', 'ref': d['ref'],
                 'oid': {'first': ['ref', d['enterprise'][0], d['enterprise'][1]],
                         'arcs': [['n', 0], ['n', d['number']]]}, 'num': d['num']}
        decls.append(d)
    m['decls'] = decls
    return m


CMP_KEYS = ('oid', 'class', 'nodetype', 'maxaccess', 'indices', 'objects', 'augmention')


def prop(case, rec):
    mset = case['mset']
    v2set = {'modules': [transliterate(m) for m in mset['modules']]}
    c2, mm2 = setcheck.evaluate(v2set, backends=('json', 'pysnmp'))
    c1, mm1 = setcheck.evaluate(mset, backends=('json', 'pysnmp'))
    _compare(case, rec, mset, c1, mm1, c2, mm2, 'v1')
    # the default grammar (smiV2 dialect) accepts most SMIv1 texts too - NetworkAddress is an ordinary identifier
    # there: whatever dialect parsed the SMIv1 text, the result is the same set of objects
    c3, mm3 = setcheck.evaluate(mset, backends=('json', 'pysnmp'), dialect='smiV2')
    if any(stage == 'parse' for (n_, stage) in c3.errors):
        rec.count('v1-text-under-smiV2-grammar.rejected')
    else:
        rec.count('v1-text-under-smiV2-grammar.accepted')
        _compare(case, rec, mset, c3, mm3, c2, mm2, 'v1-parsed-as-smiV2')
    rec.sample({'v1': dict((k, v[:600]) for k, v in c1.texts.items())})


def _compare(case, rec, mset, c1, mm1, c2, mm2, label):
    rec.evaluated()
    extra = {'v1': c1.texts, 'v2': c2.texts}
    for (c, mm, which) in ((c1, mm1, label), (c2, mm2, 'v2')):
        for backend, facet, detail in mm:
            if facet == 'compile-failed':
                raise Violation('%s:compile-failed' % which, detail, case, extra)
    v1types = trap = table = False
    for m in mset['modules']:
        for d in m['decls']:
            syn = d.get('syntax')
            if isinstance(syn, dict) and isinstance(syn['base'], str) and syn['base'] in ('Counter', 'Gauge', 'NetworkAddress', 'INTEGER'):
                v1types = True
                rec.count('v1type.' + syn['base'])
            if d['k'] == 'tt':
                rec.count('trap')
                if d['vars']:
                    trap = True
            if d['k'] == 'ot' and d['role'] == 'table':
                table = True
    if v1types and (trap or table):
        rec.mark_nontrivial(setcheck.set_digest(mset))
    # differential on JSON
    for m in mset['modules']:
        name = m['name']
        a, b = c1.json.get(name), c2.json.get(name)
        if a is None or b is None:
            continue
        ka = set(a) - set(['imports', 'meta'])
        kb = set(b) - set(['imports', 'meta'])
        if ka != kb:
            raise Violation('symbol-set-differs', '%s: only v1 %r, only v2 %r' % (name, sorted(ka - kb), sorted(kb - ka)),
                            case, extra)
        for key in sorted(ka):
            for f in CMP_KEYS:
                if a[key].get(f) != b[key].get(f):
                    raise Violation('v1-v2-differ:' + f, '%s::%s %s: v1 %r, v2 %r' % (name, key, f, a[key].get(f), b[key].get(f)),
                                    case, extra)
    # model oracle: OIDs (incl. trap OID), nodetype, access, references, pysnmp classes of the SMIv1 rendering
    for backend, facet, detail in mm1:
        if facet in ('oid', 'nodetype', 'maxaccess', 'indices', 'objects', 'class', 'syntax.type'):
            raise Violation('%s:%s:%s' % (label, backend, facet), detail, case, extra)
    # imports of the SMIv1 rendering name no SMIv1 base module for symbols that have an SMIv2 home
    for m in mset['modules']:
        name = m['name']
        if name in c1.json:
            _check_imports(name, m, c1.json[name].get('imports') or {}, None, case, extra)
        b = getattr(c1, 'builders', {}).get(name)
        if b:
            _check_imports(name, m, None, b[0].imports, case, extra)


def _check_imports(name, mod, json_imports, py_imports, case, extra):
    listed = {}
    if json_imports is not None:
        for k, v in json_imports.items():
            if isinstance(v, list):
                listed[k] = list(v)
    else:
        for k, syms in py_imports:
            listed.setdefault(k, []).extend(syms)
    for frm, syms in mod['imports']:
        for s in syms:
            home = smiv1ref.TABLE.get(frm, {}).get(s)
            if not home:
                continue
            hm, hs = home
            if s in listed.get(frm, []):
                raise Violation('smiv1-import-kept', '%s: %s still imported from %s (%s)' % (
                    name, s, frm, 'json' if json_imports is not None else 'pysnmp'), case, extra)
            if hm not in listed:
                raise Violation('smiv2-home-missing', '%s: %s FROM %s should come from %s; imports: %r' % (
                    name, s, frm, hm, sorted(listed)), case, extra)


# ---------------------------------------------------------------------------
# Domain B


def _table_check(items, text, fresh, case, rec):
    """items = [(v1 module, symbol, (home module, home symbol))]; text imports them all."""
    from pysmi.codegen.symtable import SymtableCodeGen
    from pysmi.codegen.jsondoc import JsonCodeGen
    from pysmi.codegen.pysnmp import PySnmpCodeGen
    import json
    try:
        tree = pipeline.parser('smiV1Relaxed').parse(text)[0]
        st_ = fixtures.symtables()
        info, s = SymtableCodeGen().genCode(tree, st_)
        st_[info.name] = s
        # the code generators get a tree that did NOT go through the symbol-table pass (a second parse of the
        # same text): the conversion of SMIv1 imports must not depend on SymtableCodeGen having rewritten the tree
        tree_j = pipeline.parser('smiV1Relaxed').parse(text)[0] if fresh else copy.deepcopy(tree)
        tree_p = pipeline.parser('smiV1Relaxed').parse(text)[0] if fresh else copy.deepcopy(tree)
        rec.count('tree.' + ('fresh-parse' if fresh else 'after-symtable'))
        info, jtext = JsonCodeGen().genCode(tree_j, st_)
        doc = json.loads(jtext)
        info, ptext = PySnmpCodeGen().genCode(tree_p, st_)
        b, ns = pipeline.exec_module(ptext, 'TB-MIB')
    except Exception as e:
        raise Violation('table:compile-failed', '%r: %r' % ([(i[1], i[0]) for i in items], e), case, {'text': text})
    rec.evaluated()
    imps = dict((k, v) for k, v in doc.get('imports', {}).items() if isinstance(v, list))
    pyimps = {}
    for k, syms in b.imports:
        pyimps.setdefault(k, []).extend(syms)
    for frm, sym, home in items:
        rec.count('base.' + frm)
        if home is None:
            # no SMIv2 home: the import must survive, from its own module or from RFC1213-MIB
            for label, listed in (('json', imps), ('pysnmp', pyimps)):
                if sym not in listed.get(frm, []) and sym not in listed.get('RFC1213-MIB', []):
                    raise Violation('table:import-dropped', '%s: %s FROM %s is not imported by the output at all; got %r' % (
                        label, sym, frm, dict((k, v) for k, v in listed.items() if k not in ('ASN1', 'ASN1-ENUMERATION', 'ASN1-REFINEMENT'))),
                        case, {'text': text})
            rec.count('stay-symbol')
            continue
        hm, hs = home
        for label, listed in (('json', imps), ('pysnmp', pyimps)):
            for v1 in smiv1ref.V1_BASE:
                if sym in listed.get(v1, []) and (v1, sym) != (hm, hs):
                    raise Violation('table:smiv1-import-kept', '%s: %s is still imported from %s' % (label, sym, v1), case,
                                    {'text': text, 'imports': listed})
            got = listed.get(hm, [])
            if hs is None:
                ok = hm in listed
            elif label == 'pysnmp' and hs in PySnmpCodeGen.SMI_OBJECTS:
                ok = all(x in got for x in PySnmpCodeGen.SMI_OBJECTS[hs])
            else:
                ok = hs in got
            if not ok:
                raise Violation('table:wrong-home', '%s: %s FROM %s should be imported as %s::%s; got %r' % (
                    label, sym, frm, hm, hs, dict((k, v) for k, v in listed.items() if k not in ('ASN1', 'ASN1-ENUMERATION', 'ASN1-REFINEMENT'))),
                    case, {'text': text})
    return imps


def table_prop(item, rec):
    frm, sym, home = item
    text = 'TB-MIB DEFINITIONS ::= BEGIN\nIMPORTS %s FROM %s;\nEND\n' % (sym, frm)
    case = {'module': frm, 'symbol': sym, 'home': list(home)}
    fid = 'D38' if frm == 'RFC1158-MIB' and sym not in smiv1ref.TABLE['RFC1155-SMI'] and sym not in (
        'nullSpecific', 'ipRoutingTable', 'snmpEnableAuthTraps') else None
    if fid and rec.is_known(fid):
        rec.excluded_by_construction(fid)
        return
    imps = _table_check([item], text, len(sym) % 2 == 0, case, rec)
    rec.mark_nontrivial(digest(['B', frm, sym]))
    if len(rec.samples) < 3:
        rec.sample({'text': text, 'json_imports': imps})


@st.composite
def multi_cases(draw):
    """Several SMIv1 base-module imports in one IMPORTS section, in any clause order."""
    n = len(smiv1ref.pairs()) + len(smiv1ref.stay_pairs())
    idx = draw(st.lists(st.integers(0, n - 1), min_size=2, max_size=5, unique=True))
    return {'pairs': idx, 'merge': draw(st.booleans()), 'fresh': draw(st.booleans())}


def multi_prop(case, rec):
    allp = smiv1ref.pairs() + smiv1ref.stay_pairs()
    items = []
    seen = set()
    for i in case['pairs']:
        frm, sym, home = allp[i]
        if sym in seen or ((home and home[1]) or sym) in seen:
            continue        # a name is imported once
        seen.add(sym)
        seen.add((home and home[1]) or sym)
        items.append((frm, sym, home))
    if len(items) < 2:
        return
    clauses = []
    for frm, sym, home in items:
        if case['merge'] and clauses and clauses[-1][0] == frm:
            clauses[-1][1].append(sym)
        else:
            clauses.append([frm, [sym]])
    text = 'TB-MIB DEFINITIONS ::= BEGIN\nIMPORTS\n%s;\nEND\n' % '\n'.join('  %s FROM %s' % (', '.join(c[1]), c[0]) for c in clauses)
    _table_check(items, text, case['fresh'], case, rec)
    mods = [c[0] for c in clauses]
    rec.count('multi.clauses.%d' % len(clauses))
    if len(set(mods)) >= 2:
        rec.mark_nontrivial(digest(['Bm', text]))
    if len(rec.samples) < 5:
        rec.sample({'text': text})


def probes(ctx):
    def p(rec):
        from vlib.core import Recorder
        r = Recorder({})
        bad = False
        try:
            table_prop(('RFC1158-MIB', 'sysDescr', ('SNMPv2-MIB', 'sysDescr')), r)
        except Violation:
            bad = True
        rec.evaluated()
        ctx.probe('D38', bad)
    ctx.inline('probe', p)


def run(ctx):
    ctx.search('differential', cases, prop, ctx.pick(1600, 30000))
    ctx.sweep('table', smiv1ref.pairs(), table_prop)
    ctx.search('table-multi', multi_cases, multi_prop, ctx.pick(1600, 40000))
    ctx.extra_cov['exhaustive_subdomain'] = 'Domain B: all %d (SMIv1 base module, symbol) pairs of the reference table' % len(smiv1ref.pairs())
    probes(ctx)


def replay(ctx, data):
    from vlib.core import Recorder
    rec = Recorder(ctx.findings)
    case = data['case']
    if 'pairs' in case:
        multi_prop(case, rec)
    elif 'symbol' in case:
        table_prop((case['module'], case['symbol'], tuple(case['home'])), rec)
    else:
        prop(case, rec)
