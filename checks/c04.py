"""C04 - pysnmp output is valid Python that loads and agrees with the JSON backend.

Oracles: (1) compile(text, name, 'exec') succeeds; (2) exec against the recording builder succeeds and
exportSymbols(<module name>) contains every object / notification / group / compliance / capability / identity /
type of the model; (3) differential with the JSON backend run on the same tree: OID, kind, base type, access;
(4) every (module, symbol) a generated module passes to importSymbols for another generated module is among
that module's recorded exports; (5) the whole set loads in a real pysnmp MibBuilder and every symbol's
getName() equals the model OID.
"""
import os
import shutil
import tempfile

from hypothesis import strategies as st

from vlib.core import Violation
from vlib import mibgen, setcheck, pipeline, oracle
from vlib.mibgen import mapped

ID = 'C04'
LEVEL = 'exploration'
RULE = ('Hypothesis draws module sets (1-3 modules, SMIv2 and SMIv1, 3-14 declarations of every kind) whose '
        'modules import OID nodes, objects, plain types and textual conventions from each other; identifiers '
        'plain, mixed-case and hyphenated. Non-trivial: a set with >= 2 generated modules and >= 1 cross-module '
        'import of a type / TC / object, or a module with >= 1 table. Distinct = model hash. Closure facet: one compile() '
        'call per set (all sources available); non-trivial when an SMIv1 module imports MIB-II objects that are relocated '
        'to SMIv2 modules.')
ASSUMPTIONS = [
    'JSON -> pysnmp images: scalar/table/row/column -> MibScalar/MibTable/MibTableRow/MibTableColumn, '
    'objectidentity -> ObjectIdentity, ...; INTEGER -> Integer32, OCTET STRING -> OctetString, Counter -> Counter32 ...',
    'pysnmp 7.1 semantics are trusted only for facet 5 (the set loads, getName() gives the OID)',
    'classes of open findings (see known_findings.json: D16, D17, D18, D30, D35, D36) are excluded by construction',
]

JSON2PY_TYPE = {'INTEGER': 'Integer32', 'OCTET STRING': 'OctetString', 'OBJECT IDENTIFIER': 'ObjectIdentifier',
                'Counter': 'Counter32', 'Gauge': 'Gauge32', 'NetworkAddress': 'IpAddress', 'Bits': 'Bits'}


def _profile():
    return setcheck.profile_for(None, backends=('json', 'pysnmp'), dialects=('v2', 'v2', 'v2', 'v1'),
                                modules=(1, 3), decls=(3, 14), texts='short', skipblocks=True)


@st.composite
def cases(draw):
    return {'mset': draw(mibgen.module_sets(_profile()))}


def _nontrivial(mset, rec):
    mods = mset['modules']
    names = set(m['name'] for m in mods)
    nt = False
    for m in mods:
        if any(d['k'] == 'ot' and d['role'] == 'table' for d in m['decls']):
            rec.count('with-table')
            nt = True
        for frm, syms in m['imports']:
            if frm in names:
                rec.count('cross-module-import', len(syms))
                if len(mods) >= 2:
                    nt = True
    return nt


def diff_json_py(name, doc, exports, ns):
    out = []
    tclasses = [v for k, v in ns.items() if isinstance(v, type) and not k.startswith('_')]
    for key, ent in doc.items():
        if key in ('imports', 'meta') or not isinstance(ent, dict):
            continue
        where = '%s::%s' % (name, key)
        if key not in exports:
            out.append(('export', '%s (%s) is in the JSON document but not exported by the pysnmp module' % (
                where, ent.get('class'))))
            continue
        d = pipeline.describe(exports[key], tclasses)
        cls = ent.get('class')
        if cls in ('type', 'textualconvention'):
            if not d['is_class']:
                out.append(('class', '%s: JSON says %s, pysnmp exports an instance' % (where, cls)))
                continue
            want = JSON2PY_TYPE.get(ent['type']['type'], ent['type']['type'])
            bases = [mapped(o) for o in d['origins']] + [c.__name__ for c in exports[key].__mro__]
            if want not in bases:
                out.append(('basetype', '%s: JSON base %r, pysnmp bases %r' % (where, ent['type']['type'], bases)))
            if cls == 'textualconvention' and 'TextualConvention' not in d['origins']:
                out.append(('class', '%s: JSON says textualconvention, pysnmp bases %r' % (where, d['origins'])))
            continue
        if d['is_class']:
            out.append(('class', '%s: JSON says %s, pysnmp exports a class' % (where, cls)))
            continue
        want_cls = oracle.PY_NODE.get(ent.get('nodetype')) if cls == 'objecttype' else oracle.PY_CLASS.get(cls)
        if want_cls not in d['origins']:
            out.append(('class', '%s: JSON %s/%s, pysnmp class %r' % (where, cls, ent.get('nodetype'), d['origins'])))
        oid = tuple(int(x) for x in ent['oid'].split('.')) if 'oid' in ent else None
        got = d['args'][0] if d['args'] else None
        if oid != got:
            out.append(('oid', '%s: JSON oid %r, pysnmp %r' % (where, oid, got)))
        if cls == 'objecttype' and ent.get('nodetype') in ('scalar', 'column'):
            acc = pipeline.calls_named(d, 'setMaxAccess')
            if acc != [(ent.get('maxaccess'),)]:
                out.append(('maxaccess', '%s: JSON maxaccess %r, pysnmp setMaxAccess %r' % (where, ent.get('maxaccess'), acc)))
            jt = (ent.get('syntax') or {}).get('type')
            want = JSON2PY_TYPE.get(jt, jt)
            bases = [mapped(o) for o in d.get('syntax_origins') or []] + (d.get('syntax_bases') or [])
            if want not in bases:
                out.append(('basetype', '%s: JSON type %r, pysnmp syntax bases %r' % (where, jt, bases)))
    return out


def prop(case, rec):
    mset = case['mset']
    c, mm = setcheck.evaluate(mset, backends=('json', 'pysnmp'))
    rec.evaluated()
    setcheck.classify_set(mset, rec)
    if _nontrivial(mset, rec):
        rec.mark_nontrivial(setcheck.set_digest(mset))
    extra = {'texts': c.texts}
    for backend, facet, detail in mm:
        if facet == 'compile-failed' or (backend == 'pysnmp' and facet in ('py-syntax', 'py-exec', 'export', 'class',
                                                                           'oid', 'maxaccess', 'syntax.type')):
            raise Violation('%s:%s' % (backend, facet), detail, case, extra)
    builders = getattr(c, 'builders', {})
    names = [m['name'] for m in mset['modules']]
    # (3) differential with JSON
    for name in names:
        if name in c.json and name in builders:
            b, ns = builders[name]
            for facet, detail in diff_json_py(name, c.json[name], b.exports.get(name, {}), ns):
                raise Violation('json-vs-pysnmp:' + facet, detail, case, extra)
    # (4) import/export closure among generated modules
    for name in names:
        if name not in builders:
            continue
        b, ns = builders[name]
        for frm, syms in b.imports:
            if frm in builders and frm != name:
                exp = builders[frm][0].exports.get(frm, {})
                for s in syms:
                    rec.count('closure.import-checked')
                    if s not in exp:
                        raise Violation('import-not-exported', '%s imports %r from %s which exports %r' % (
                            name, s, frm, sorted(exp)[:30]), case, extra)
    rec.sample({'texts': dict((k, v[:700]) for k, v in c.texts.items())})
    return c


_FIXOUT = {}


def _fixture_outputs():
    if not _FIXOUT:
        from pysmi.codegen.pysnmp import PySnmpCodeGen
        from vlib import fixtures
        st_ = fixtures.symtables()
        for name in ('IF-MIB', 'IP-MIB', 'TCP-MIB', 'UDP-MIB'):
            tree = pipeline.parser('smiV2').parse(fixtures.text(name))[0]
            info, text = PySnmpCodeGen().genCode(tree, st_, comments=['fixture'])
            _FIXOUT[name] = text
    return _FIXOUT


def real_prop(case, rec):
    """(5) the whole set loads together in a real pysnmp MibBuilder."""
    mset = case['mset']
    c = pipeline.run_set(mset, backends=('pysnmp',))
    rec.evaluated()
    if c.errors:
        k, e = sorted(c.errors.items())[0]
        raise Violation('compile-failed', '%s: %r' % (k, e), case, {'texts': c.texts})
    if _nontrivial(mset, rec):
        rec.mark_nontrivial(setcheck.set_digest(['real', mset]))
    tmp = tempfile.mkdtemp(prefix='c04real')
    try:
        from pysnmp.smi import builder, error as smierror
        for name, text in c.py_text.items():
            with open(os.path.join(tmp, name + '.py'), 'w') as f:
                f.write(text)
        # base MIBs that pysnmp does not ship (IF-MIB ...): their fixture texts, compiled by the same code generator
        for name, text in _fixture_outputs().items():
            with open(os.path.join(tmp, name + '.py'), 'w') as f:
                f.write(text)
        mb = builder.MibBuilder()
        mb.addMibSources(builder.DirMibSource(tmp))
        for m in mset['modules']:
            try:
                mb.loadModules(m['name'])
            except Exception as e:
                raise Violation('real-load-failed', '%s: %s' % (m['name'], str(e)[-600:]), case,
                                {'texts': c.texts, 'py': dict((k, v[-3000:]) for k, v in c.py_text.items())})
        for m in mset['modules']:
            for d in m['decls']:
                if 'num' not in d:
                    continue
                try:
                    obj, = mb.importSymbols(m['name'], mapped(d['name']))
                except Exception as e:
                    raise Violation('real-symbol-missing', '%s::%s: %s' % (m['name'], d['name'], e), case,
                                    {'texts': c.texts})
                got = tuple(obj.getName())
                rec.count('real.symbol-checked')
                if got != tuple(d['num']):
                    raise Violation('real-oid', '%s::%s getName() %r, expected %r' % (m['name'], d['name'], got, d['num']),
                                    case, {'texts': c.texts})
    finally:
        shutil.rmtree(tmp, ignore_errors=True)


# -- probes ------------------------------------------------------------------------------------------

def _mk(name, decls, imports):
    return {'name': name, 'dialect': 'v2', 'exports': None, 'imports': imports, 'decls': decls}


def _val(name, first, arc, num):
    return {'k': 'value', 'name': name, 'oid': {'first': first, 'arcs': [['n', arc]]}, 'num': num}


PROBE_D16 = {'modules': [_mk('PA-MIB', [_val('a-root', ['num', 1], 3, [1, 3])], []),
                         _mk('PB-MIB', [_val('bnode', ['ref', 'PA-MIB', 'a-root'], 1, [1, 3, 1])], [['PA-MIB', ['a-root']]])]}
PROBE_D17 = {'modules': [_mk('PK-MIB', [_val('global', ['num', 1], 3, [1, 3]),
                                        _val('knode', ['ref', 'PK-MIB', 'global'], 1, [1, 3, 1])], [])]}
_TC = {'k': 'tc', 'name': 'TcA', 'display': None, 'status': 'current', 'descr': 'd', 'ref': None,
       'syntax': {'base': 'Integer32', 'sub': None, 'tag': None}}
_TD = {'k': 'td', 'name': 'TdB', 'syntax': {'base': ['named', 'TcA', 'PT-MIB'], 'sub': None, 'tag': None}}
PROBE_D35 = {'modules': [_mk('PT-MIB', [_TC, _TD], [['SNMPv2-SMI', ['Integer32']], ['SNMPv2-TC', ['TEXTUAL-CONVENTION']]])]}
PROBE_D30 = {'modules': [_mk('PN-MIB', [{'k': 'td', 'name': 'Tn', 'syntax': {'base': 'INTEGER', 'sub': ['enum', [['a', 0]]], 'tag': None}}], [])]}


PROBE_D36_TEXT = """PG-MIB DEFINITIONS ::= BEGIN
IMPORTS OBJECT-TYPE, Integer32 FROM SNMPv2-SMI;
augTable OBJECT-TYPE SYNTAX SEQUENCE OF AugEntry MAX-ACCESS not-accessible STATUS current DESCRIPTION "d" ::= { 1 3 1 }
augEntry OBJECT-TYPE SYNTAX AugEntry MAX-ACCESS not-accessible STATUS current DESCRIPTION "d" AUGMENTS { baseEntry } ::= { augTable 1 }
AugEntry ::= SEQUENCE { augCol Integer32 }
augCol OBJECT-TYPE SYNTAX Integer32 MAX-ACCESS read-only STATUS current DESCRIPTION "d" ::= { augEntry 1 }
baseTable OBJECT-TYPE SYNTAX SEQUENCE OF BaseEntry MAX-ACCESS not-accessible STATUS current DESCRIPTION "d" ::= { 1 3 2 }
baseEntry OBJECT-TYPE SYNTAX BaseEntry MAX-ACCESS not-accessible STATUS current DESCRIPTION "d" INDEX { baseCol } ::= { baseTable 1 }
BaseEntry ::= SEQUENCE { baseCol Integer32 }
baseCol OBJECT-TYPE SYNTAX Integer32 MAX-ACCESS read-only STATUS current DESCRIPTION "d" ::= { baseEntry 1 }
END
"""


def _text_exec_fails(text):
    from pysmi.codegen.symtable import SymtableCodeGen
    from pysmi.codegen.pysnmp import PySnmpCodeGen
    from vlib import fixtures
    try:
        tree = pipeline.parser('smiV2').parse(text)[0]
        st_ = fixtures.symtables()
        info, s = SymtableCodeGen().genCode(tree, st_)
        st_[info.name] = s
        info, py = PySnmpCodeGen().genCode(tree, st_)
        pipeline.exec_module(py, info.name)
        return False
    except Exception:
        return True


def _exec_fails(mset):
    c, mm = setcheck.evaluate(mset, backends=('pysnmp',))
    return any(f in ('compile-failed', 'py-syntax', 'py-exec') for b, f, d in mm), c


def probes(ctx):
    def p(rec):
        # D16
        c, mm = setcheck.evaluate(PROBE_D16, backends=('pysnmp',))
        bad = True
        b = getattr(c, 'builders', {})
        if 'PA-MIB' in b and 'PB-MIB' in b:
            exp = b['PA-MIB'][0].exports.get('PA-MIB', {})
            req = [s for frm, syms in b['PB-MIB'][0].imports if frm == 'PA-MIB' for s in syms]
            bad = any(s not in exp for s in req)
        ctx.probe('D16', bad)
        d17_fails, c17 = _exec_fails(PROBE_D17)
        ctx.probe('D17', d17_fails)
        if not d17_fails:
            # keyword-named symbols compile now: then they are ordinary symbols and the whole oracle applies to them
            # (the listed finding is "they do not compile", not "they come out under another name")
            c_, mm_ = setcheck.evaluate(PROBE_D17, backends=('json', 'pysnmp'))
            for backend, facet, detail in mm_:
                raise Violation('keyword-named-symbol:%s:%s' % (backend, facet), detail, {'mset': PROBE_D17}, {'texts': c_.texts})
        ctx.probe('D35', _exec_fails(PROBE_D35)[0])
        ctx.probe('D30', _exec_fails(PROBE_D30)[0])
        ctx.probe('D36', _text_exec_fails(PROBE_D36_TEXT))
        rec.evaluated(5)
    ctx.inline('probe', p)


def closure_prop(case, rec):
    """The set loads together: one compile() call for the whole set (everything available from the source) looks up
    every module its outputs import from - also the SMIv2 homes that SMIv1 imports are relocated to."""
    mset = case['mset']
    texts, mm = setcheck.evaluate_compile(mset)
    rec.evaluated()
    rec.count('compile-route.sets')
    if any(frm in ('RFC1213-MIB', 'RFC1158-MIB') for m in mset['modules'] for frm, syms in m['imports']):
        rec.count('compile-route.with-relocated-smiv1-imports')
        rec.mark_nontrivial(setcheck.set_digest(['closure', mset]))
    for backend, facet, detail in mm:
        if facet in ('compile-failed', 'import-closure'):
            raise Violation('%s:%s' % (backend, facet), detail, case, {'texts': texts})


def run(ctx):
    ctx.search('closure', cases, closure_prop, ctx.pick(800, 20000))
    ctx.search('recorder', cases, prop, ctx.pick(2400, 50000))
    ctx.search('real', cases, real_prop, ctx.pick(800, 16000))
    probes(ctx)


def replay(ctx, data):
    from vlib.core import Recorder
    rec = Recorder(ctx.findings)
    if data.get('search') == 'real':
        real_prop(data['case'], rec)
    elif data.get('search') == 'closure':
        closure_prop(data['case'], rec)
    else:
        prop(data['case'], rec)
