"""C13 - writing a module is atomic under I/O faults; dry-run touches nothing.

Fault enumeration: the names `os`, `tempfile`, `py_compile` inside pysmi.writer.localfile / pysmi.writer.pyfile
are replaced by recording proxies over the real modules. Pass 1 records the ordered system-call sites of a
fault-free putData(); pass 2 re-runs the call once per (site, fault kind) on a fresh copy of the same directory.
Oracle: destination holds exactly its previous content (or is absent) or exactly the complete new content; no
other file appears; any exception is PySmiWriterError; a normal return implies the full content is stored under
<name><suffix>; a byte-compile fault may remove the module but never leaves other content. dryRun / writeMibs=False:
the directory snapshot is unchanged and no mutating call is made. Schedules: two writers of the same module are
stepped through their call sites in a Hypothesis-drawn interleaving.
"""
import errno
import itertools
import os
import shutil
import tempfile
import threading

from hypothesis import strategies as st

from vlib.core import Violation, digest

ID = 'C13'
LEVEL = 'fault_enumeration'
RULE = ('Configurations = writer (FileWriter suffix "" / ".json", PyFileWriter with and without byte-compilation) x '
        'destination directory present / absent (nested) x destination file absent / present with old content x data '
        'shape (empty, 1 byte, ASCII text, non-ASCII + lone surrogate, 64 KiB, 256 KiB) x module name (ASCII, '
        'hyphenated, non-ASCII) x comments; for each configuration every recorded call site (path.exists, makedirs, '
        'mkstemp, write, close, rename, py_compile.compile, access, unlink) is combined with every fault kind (OSError '
        'EACCES / ENOSPC / EIO / EEXIST before the effect, the same error persisting over retries, close failing after the effect, short write of 0 / 1 / '
        'len/2 / len-1 bytes, PyCompileError / SyntaxError / OSError from py_compile). A faulted call is non-trivial '
        'when the fault is at or after mkstemp with an existing destination, or is a short write. Schedules: '
        'Hypothesis draws interleavings of two writers; non-trivial with >= 2 context switches between mkstemp and rename.')
ASSUMPTIONS = [
    'a fault is injected before the real operation takes effect (plus "close fails after closing")',
    'one faulty step per call: it fails once, or (persistent kind) every time that same operation is retried; '
    'failures of other operations inside the error-handling path (a second fault) are outside the statement',
    'leaked file descriptors are not claimed by the property',
    'concurrency is explored at system-call granularity under a harness-owned scheduler, not kernel preemption',
    'complete new content = the UTF-8 encoding pysmi.compat.encode gives the text (lone surrogates are dropped)',
]

MUTATING = ('makedirs', 'mkstemp', 'write', 'close', 'rename', 'unlink', 'compile')


class Fault(object):
    def __init__(self, site_index, kind, arg=None):
        self.site_index = site_index
        self.kind = kind
        self.arg = arg


class Recorder_(object):
    def __init__(self, fault=None, sched=None):
        self.sites = []
        self.fault = fault
        self.sched = sched
        self.fired = False

    def enter(self, name):
        if self.sched is not None:
            self.sched.checkpoint(name)
        idx = len(self.sites)
        self.sites.append(name)
        f = self.fault
        if f is not None and f.site_index == idx and not self.fired:
            self.fired = True
            self.fired_name = name
            return f
        if f is not None and f.kind == 'oserror-persistent' and self.fired and name == self.fired_name:
            return f   # the faulty operation keeps failing however often it is retried
        return None


_local = threading.local()


def _rec():
    return getattr(_local, 'rec', None)


def _oserror(code):
    return OSError(code, os.strerror(code))


class PathProxy(object):
    def __getattr__(self, name):
        real = getattr(os.path, name)
        if name != 'exists':
            return real

        def call(*a, **kw):
            r = _rec()
            if r is not None:
                r.enter('path.exists')
            return real(*a, **kw)
        return call


class OsProxy(object):
    path = PathProxy()

    def __getattr__(self, name):
        real = getattr(os, name)
        if name not in ('makedirs', 'write', 'close', 'rename', 'unlink', 'access'):
            return real

        def call(*a, **kw):
            r = _rec()
            f = r.enter(name) if r is not None else None
            if f is not None:
                if f.kind in ('oserror', 'oserror-persistent'):
                    raise _oserror(f.arg)
                if f.kind == 'after-effect':
                    real(*a, **kw)
                    raise _oserror(f.arg)
                if f.kind == 'short' and name == 'write':
                    fd, data = a[0], a[1]
                    k = f.arg(len(data))
                    return real(fd, data[:k]) if k else 0
            return real(*a, **kw)
        return call


class TempfileProxy(object):
    def __getattr__(self, name):
        real = getattr(tempfile, name)
        if name != 'mkstemp':
            return real

        def call(*a, **kw):
            r = _rec()
            f = r.enter('mkstemp') if r is not None else None
            if f is not None and f.kind in ('oserror', 'oserror-persistent'):
                raise _oserror(f.arg)
            return real(*a, **kw)
        return call


class PyCompileProxy(object):
    def __getattr__(self, name):
        import py_compile
        real = getattr(py_compile, name)
        if name != 'compile':
            return real

        def call(*a, **kw):
            r = _rec()
            f = r.enter('compile') if r is not None else None
            if f is not None:
                if f.kind == 'pycompileerror':
                    raise py_compile.PyCompileError(SyntaxError, SyntaxError('injected'), a[0])
                if f.kind == 'syntaxerror':
                    raise SyntaxError('injected')
                if f.kind == 'oserror':
                    raise _oserror(f.arg)
            return real(*a, **kw)
        return call


_installed = []


def install():
    if _installed:
        return
    import pysmi.writer.localfile as lf
    import pysmi.writer.pyfile as pf
    osp, tfp, pcp = OsProxy(), TempfileProxy(), PyCompileProxy()
    lf.os = osp
    lf.tempfile = tfp
    pf.os = osp
    pf.tempfile = tfp
    pf.py_compile = pcp
    _installed.append(True)


DATA = {
    'empty': '',
    'one': 'x',
    'ascii': 'MIB = 1\n# some text\n' * 5,
    'nonascii': 'name = "é中\U0001f600"\n# lone surrogate \udc80 here\n',
    '64k': ('a = %d\n' % 7) * 9000,
    '256k': ('value_%d = "x"\n' % 3) * 19000,
}
NAMES = {'ascii': 'TESTMIB', 'hyphen': 'TEST-MIB', 'nonascii': 'TÉST-MIB'}
WRITERS = ('file', 'file.json', 'py', 'py.nocompile')
OLD = b'old complete content\n'


def make_writer(kind, path):
    from pysmi.writer.localfile import FileWriter
    from pysmi.writer.pyfile import PyFileWriter
    if kind == 'file':
        return FileWriter(path), ''
    if kind == 'file.json':
        return FileWriter(path).setOptions(suffix='.json'), '.json'
    if kind == 'py':
        return PyFileWriter(path).setOptions(pyCompile=True), '.py'
    return PyFileWriter(path).setOptions(pyCompile=False), '.py'


def snapshot(root):
    out = {}
    if not os.path.isdir(root):
        return None
    for dp, dn, fn in os.walk(root):
        if '__pycache__' in dp:
            continue
        for f in fn:
            p = os.path.join(dp, f)
            with open(p, 'rb') as fh:
                out[os.path.relpath(p, root)] = fh.read()
        for d_ in dn:
            if d_ != '__pycache__':
                out[os.path.relpath(os.path.join(dp, d_), root) + '/'] = None
    return out


def setup_dir(cfg):
    base = tempfile.mkdtemp(prefix='c13')
    if cfg['dir'] == 'present':
        dest = os.path.join(base, 'out')
        os.makedirs(dest)
        with open(os.path.join(dest, 'neighbour.txt'), 'wb') as fh:
            fh.write(b'neighbour')
    else:
        dest = os.path.join(base, 'a', 'b', 'out')
    return base, dest


def expected_bytes(cfg):
    from pysmi.compat import encode
    data = DATA[cfg['data']]
    if cfg['comments']:
        data = '#\n' + ''.join(['# %s\n' % x for x in ('c1', 'c2')]) + '#\n' + data
    return encode(data)


def one_call(cfg, fault):
    """Run putData under an optional fault. Returns (sites, exception or None, pre snapshot, post snapshot, dest rel)."""
    from pysmi import error
    install()
    base, dest = setup_dir(cfg)
    try:
        w, suffix = make_writer(cfg['writer'], dest)
        fname = NAMES[cfg['name']] + suffix
        if cfg['dest'] == 'present' and cfg['dir'] == 'present':
            with open(os.path.join(dest, fname), 'wb') as fh:
                fh.write(OLD)
        pre = snapshot(base)
        rec = Recorder_(fault)
        _local.rec = rec
        exc = None
        try:
            kw = {}
            if cfg['comments']:
                kw['comments'] = ('c1', 'c2')
            if cfg.get('dryRun'):
                kw['dryRun'] = True
            w.putData(NAMES[cfg['name']], DATA[cfg['data']], **kw)
        except BaseException as e:   # noqa
            exc = e
        finally:
            _local.rec = None
        post = snapshot(base)
        rel = os.path.relpath(os.path.join(dest, fname), base)
        return rec.sites, exc, pre, post, rel, rec.fired
    finally:
        shutil.rmtree(base, ignore_errors=True)


def judge(cfg, fault_desc, sites, exc, pre, post, rel, rec, fault_site=None):
    from pysmi import error
    case = {'cfg': cfg, 'fault': fault_desc}
    new = expected_bytes(cfg)
    old = (pre or {}).get(rel)
    post = post or {}
    got = post.get(rel)
    if exc is not None and not isinstance(exc, error.PySmiWriterError):
        raise Violation('foreign-exception', '%r' % (exc,), case)
    # other files
    allowed = set(pre or {}) | set([rel])
    # directories created on the way to the destination are fine
    for k in post:
        if k.endswith('/'):
            continue
        if k not in allowed:
            raise Violation('residue-left-behind', 'unexpected file %r (fault %r)' % (k, fault_desc), case)
    for k, v in (pre or {}).items():
        if k != rel and not k.endswith('/') and post.get(k) != v:
            raise Violation('other-file-changed', k, case)
    compile_fault = fault_site == 'compile'
    if got is None:
        if exc is None:
            raise Violation('returned-without-file', 'putData returned normally but %s does not exist' % rel, case)
        if old is not None and not compile_fault:
            raise Violation('old-content-lost', 'destination existed before and is gone after a failed write (%r)' % (fault_desc,), case)
    elif got == new:
        pass
    elif got == old:
        if exc is None:
            raise Violation('returned-with-old-content', 'putData returned normally, destination still holds the old content', case)
    else:
        raise Violation('partial-or-mixed-content', 'destination holds %d bytes, neither the old (%s) nor the new (%d bytes) '
                        'content; fault %r; putData %s' % (len(got), 'absent' if old is None else '%d bytes' % len(old),
                                                            len(new), fault_desc, 'returned' if exc is None else 'raised'), case)
    if exc is None and got != new:
        raise Violation('returned-without-full-content', repr(fault_desc), case)


def fault_kinds(site, cfg):
    out = []
    if site in ('makedirs', 'mkstemp', 'write', 'close', 'rename'):
        for code in (errno.EACCES, errno.ENOSPC, errno.EIO, errno.EEXIST):
            out.append(('oserror', code))
        # the same step failing again when it is retried (EXDEV / EACCES do not go away): still one faulty step
        out.append(('oserror-persistent', errno.EXDEV if site == 'rename' else errno.EACCES))
    if site == 'close':
        out.append(('after-effect', errno.EIO))
    if site == 'write':
        out += [('short', 'zero'), ('short', 'one'), ('short', 'half'), ('short', 'allbutone')]
    if site == 'compile':
        out += [('pycompileerror', None), ('syntaxerror', None), ('oserror', errno.EIO), ('oserror', errno.EACCES)]
    return out


SHORT = {'zero': lambda n: 0, 'one': lambda n: min(1, n), 'half': lambda n: n // 2, 'allbutone': lambda n: max(0, n - 1)}


def config_prop(cfg, rec):
    sites, exc, pre, post, rel, fired = one_call(cfg, None)
    rec.evaluated()
    judge(cfg, None, sites, exc, pre, post, rel, rec)
    if exc is not None:
        raise Violation('fault-free-call-failed', '%r' % (exc,), {'cfg': cfg})
    rec.count('sites.%d' % len(sites))
    for idx, site in enumerate(sites):
        for kind, arg in fault_kinds(site, cfg):
            desc = {'site': site, 'index': idx, 'kind': kind, 'arg': arg}
            farg = SHORT[arg] if kind == 'short' else arg
            n = len(expected_bytes(cfg))
            if kind == 'short' and farg(n) == n:
                continue   # not short for this data size
            s2, exc2, pre2, post2, rel2, fired2 = one_call(cfg, Fault(idx, kind, farg))
            rec.evaluated()
            if not fired2:
                raise Violation('fault-site-not-reached', repr(desc), {'cfg': cfg, 'fault': desc})
            rec.count('fault.%s.%s' % (site, kind))
            judge(cfg, desc, s2, exc2, pre2, post2, rel2, rec, fault_site=site)
            at_or_after_mkstemp = 'mkstemp' in sites[:idx + 1]
            if kind == 'short' or (at_or_after_mkstemp and cfg['dest'] == 'present' and cfg['dir'] == 'present'):
                rec.mark_nontrivial(digest([cfg, desc]))
    if cfg['data'] in ('ascii', 'nonascii') and cfg['name'] == 'hyphen':
        rec.sample({'cfg': cfg, 'sites': sites})


def dryrun_prop(cfg, rec):
    cfg = dict(cfg, dryRun=True)
    sites, exc, pre, post, rel, fired = one_call(cfg, None)
    rec.evaluated()
    if exc is not None:
        raise Violation('dryrun-raised', repr(exc), {'cfg': cfg})
    if pre != post:
        raise Violation('dryrun-modified-filesystem', 'before %r after %r' % (sorted(pre or {}), sorted(post or {})), {'cfg': cfg})
    bad = [s for s in sites if s in MUTATING]
    if bad:
        raise Violation('dryrun-made-mutating-call', repr(bad), {'cfg': cfg})
    rec.count('dryrun')
    rec.mark_nontrivial(digest(['dry', cfg]))


def configs(tier):
    datas = ('empty', 'ascii', 'nonascii', '64k') if tier == 'quick' else tuple(DATA)
    names = ('hyphen', 'nonascii') if tier == 'quick' else tuple(NAMES)
    out = []
    for w, d, dest, data, name, comm in itertools.product(WRITERS, ('present', 'absent'), ('present', 'absent'), datas,
                                                          names, (False, True)):
        if d == 'absent' and dest == 'present':
            continue
        if tier == 'quick' and comm and data not in ('ascii',):
            continue
        out.append({'writer': w, 'dir': d, 'dest': dest, 'data': data, 'name': name, 'comments': comm})
    return out


# ---------------------------------------------------------------------------
# writeMibs=False through compile()

def compile_nowrite(ctx):
    def p(rec):
        from pysmi.compiler import MibCompiler
        from pysmi.reader.callback import CallbackReader
        from pysmi.codegen.jsondoc import JsonCodeGen
        from pysmi.searcher.stub import StubSearcher
        from vlib import pipeline, fixtures
        install()
        for kind in WRITERS:
            for opts in ({'writeMibs': False}, {'dryRun': True}, {'writeMibs': False, 'dryRun': True},
                         # the way mibdump passes --no-mib-writes: both keys present
                         {'writeMibs': False, 'dryRun': False}, {'writeMibs': False, 'dryRun': None}, {'writeMibs': True, 'dryRun': True}):
                base = tempfile.mkdtemp(prefix='c13c')
                try:
                    dest = os.path.join(base, 'out')
                    os.makedirs(dest)
                    w, suffix = make_writer(kind, dest)
                    with open(os.path.join(dest, 'X-MIB' + suffix), 'wb') as fh:
                        fh.write(OLD)
                    comp = MibCompiler(pipeline.parser('smiV2'), JsonCodeGen(), w)
                    comp.addSources(CallbackReader(lambda n, c: 'X-MIB DEFINITIONS ::= BEGIN x OBJECT IDENTIFIER ::= { 1 3 } END'
                                                   if n == 'X-MIB' else (fixtures.text(n) if n in fixtures.available() else '')))
                    comp.addSearchers(StubSearcher(*fixtures.BASE_MODULES))
                    pre = snapshot(base)
                    r = Recorder_()
                    _local.rec = r
                    try:
                        res = comp.compile('X-MIB', **opts)
                    finally:
                        _local.rec = None
                    post = snapshot(base)
                    rec.evaluated()
                    case = {'writer': kind, 'options': opts}
                    if res.get('X-MIB') != 'compiled':
                        raise Violation('nowrite-compile-status', repr(dict(res)), case)
                    if pre != post:
                        raise Violation('nowrite-modified-filesystem', repr(sorted(post)), case)
                    if [s for s in r.sites if s in MUTATING]:
                        raise Violation('nowrite-made-mutating-call', repr(r.sites), case)
                    rec.mark_nontrivial(digest(case))
                finally:
                    shutil.rmtree(base, ignore_errors=True)
    ctx.inline('compile-nowrite', p)


# ---------------------------------------------------------------------------
# schedules


class Scheduler(object):
    def __init__(self):
        self.cv = threading.Condition()
        self.turn = None
        self.waiting = {}
        self.done = set()
        self.free_run = False

    def checkpoint(self, site):
        tid = threading.current_thread().name
        with self.cv:
            if self.free_run:
                return
            self.waiting[tid] = site
            self.cv.notify_all()
            while self.turn != tid and not self.free_run:
                self.cv.wait(10)
            self.turn = None
            self.waiting.pop(tid, None)

    def step(self, tid):
        """Let thread tid run until its next checkpoint (or its end). Returns False if it is finished."""
        with self.cv:
            end = lambda: tid in self.done
            if end():
                return False
            # wait until the thread is parked at a checkpoint
            t0 = 0
            while tid not in self.waiting and not end():
                self.cv.wait(0.05)
                t0 += 1
                if t0 > 400:
                    raise RuntimeError('thread %s never reached a checkpoint' % tid)
            if end():
                return False
            site = self.waiting[tid]
            self.turn = tid
            self.cv.notify_all()
            while (self.turn == tid or (tid not in self.waiting and not end())):
                self.cv.wait(0.05)
            return site


@st.composite
def schedules(draw):
    return {'schedule': draw(st.lists(st.sampled_from(('A', 'B')), min_size=2, max_size=24)),
            'writer': draw(st.sampled_from(('file.json', 'py.nocompile', 'file'))),
            'dest': draw(st.sampled_from(('present', 'absent')))}


def schedule_prop(case, rec):
    from pysmi import error
    install()
    base = tempfile.mkdtemp(prefix='c13s')
    try:
        dest = os.path.join(base, 'out')
        os.makedirs(dest)
        sched = Scheduler()
        contents = {'A': 'A' * 5000 + '\n', 'B': 'B' * 7000 + '\n'}
        w, suffix = make_writer(case['writer'], dest)
        target = os.path.join(dest, 'SAME-MIB' + suffix)
        if case['dest'] == 'present':
            with open(target, 'wb') as fh:
                fh.write(OLD)
        valid = [OLD if case['dest'] == 'present' else None, contents['A'].encode(), contents['B'].encode()]
        results = {}

        def work(tid):
            _local.rec = Recorder_(None, sched)
            try:
                make_writer(case['writer'], dest)[0].putData('SAME-MIB', contents[tid])
                results[tid] = None
            except BaseException as e:   # noqa
                results[tid] = e
            finally:
                _local.rec = None
                with sched.cv:
                    sched.done.add(tid)
                    sched.cv.notify_all()

        threads = [threading.Thread(target=work, args=(t,), name=t) for t in ('A', 'B')]
        for t in threads:
            t.daemon = True
            t.start()
        trace = []
        switches_in_window = 0
        last = None
        for tid in case['schedule'] + ['A'] * 12 + ['B'] * 12:
            site = sched.step(tid)
            if site is False:
                continue
            trace.append((tid, site))
            if last is not None and last != tid and any(s == 'mkstemp' for t_, s in trace) and not all(
                    any(s == 'rename' and t_ == x for t_, s in trace) for x in ('A', 'B')):
                switches_in_window += 1
            last = tid
            cur = None
            if os.path.exists(target):
                with open(target, 'rb') as fh:
                    cur = fh.read()
            if cur not in valid:
                raise Violation('partial-content-visible', 'after step %r the destination holds %r bytes that are neither old, A nor B' % (
                    (tid, site), None if cur is None else len(cur)), case, {'trace': trace})
        for t in threads:
            t.join(10)
        rec.evaluated()
        for tid, e in results.items():
            if e is not None and not isinstance(e, error.PySmiWriterError):
                raise Violation('foreign-exception', '%s: %r' % (tid, e), case, {'trace': trace})
        with open(target, 'rb') as fh:
            final = fh.read()
        if final not in valid[1:]:
            raise Violation('final-content', '%d bytes' % len(final), case, {'trace': trace})
        left = [f for f in os.listdir(dest) if f != 'SAME-MIB' + suffix and f != '__pycache__']
        if left:
            raise Violation('temporary-file-left', repr(left), case, {'trace': trace})
        rec.count('schedule.switches.%d' % min(switches_in_window, 6))
        if switches_in_window >= 2:
            rec.mark_nontrivial(digest(case))
        rec.sample({'case': case, 'trace': trace})
    finally:
        shutil.rmtree(base, ignore_errors=True)


def probes(ctx):
    def p(rec):
        cfg = {'writer': 'file.json', 'dir': 'present', 'dest': 'present', 'data': 'ascii', 'name': 'hyphen', 'comments': False}
        sites, exc, pre, post, rel, fired = one_call(cfg, Fault(2, 'short', SHORT['half']))
        bad = False
        try:
            judge(cfg, {'site': 'write', 'kind': 'short'}, sites, exc, pre, post, rel, rec, 'write')
        except Violation:
            bad = True
        rec.evaluated()
        ctx.probe('D13', bad)
    ctx.inline('probe', p)


def run(ctx):
    cfgs = configs(ctx.tier)
    ctx.sweep('faults', cfgs, config_prop)
    ctx.sweep('dryrun', cfgs, dryrun_prop)
    compile_nowrite(ctx)
    ctx.search('schedules', schedules, schedule_prop, ctx.pick(400, 8000), shards=8)
    probes(ctx)
    ctx.exhaustive = True
    ctx.extra_cov['exhaustive_subdomain'] = ('every call site x every fault kind is enumerated completely for each of the %d '
                                            'configurations of this tier; schedules are sampled' % len(cfgs))


def replay(ctx, data):
    from vlib.core import Recorder
    case = data['case']
    rec = Recorder(ctx.findings)
    if 'schedule' in case:
        schedule_prop(case, rec)
    elif 'cfg' in case:
        config_prop(case['cfg'], rec)
