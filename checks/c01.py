"""C01 - valid module sets compile; every symbol gets the OID the text defines.

Oracle: the model's own OID resolution (parent references followed down to a numeric root) against
(a) "oid" of every JSON entry, (b) first constructor argument of every object in the executed pysnmp module,
(c) oids / identity / enterprise / compliance of the status objects MibCompiler.compile() returns.
"""
from hypothesis import strategies as st

from vlib.core import Violation
from vlib import mibgen, setcheck, fixtures, pipeline

ID = 'C01'
LEVEL = 'exploration'
RULE = ('Hypothesis draws module sets (1-3 modules, SMIv2 and SMIv1, 2-16 declarations each, all OID-carrying '
        'clause kinds incl. TRAP-TYPE) whose OID parents are numeric roots, iso, fixture nodes, nodes declared '
        'earlier or later in the module, or nodes imported from other generated modules (chains); sub-identifiers '
        'spelled n / name(n), hyphenated names, declarations permuted. Non-trivial: >= 1 forward OID reference, or '
        '>= 1 parent in another generated module, or an OID of >= 9 arcs. Distinct = hash of the model.')
ASSUMPTIONS = [
    'the model-side OID resolution (vlib.mibgen) is the ground truth: parent OID + written arcs',
    'fixture base modules (SNMPv2-SMI etc.) are faithful transcriptions of the RFC OID skeleton',
    'names are unique across the generated set (the same name in two modules is not generated)',
    'enterprise is checked as: falsy iff no OID has the 1.3.6.1.4.1.x prefix, else the 7-arc prefix of one that does',
]

FACETS = ('compile-failed', 'oid')


def _profile(backends=('json', 'pysnmp')):
    return setcheck.profile_for(None, backends=backends, dialects=('v2', 'v2', 'v1'), modules=(1, 3),
                                decls=(2, 16), texts='short', skipblocks=False, defval=False,
                                kinds=None)


@st.composite
def cases(draw):
    return {'mset': draw(mibgen.module_sets(_profile()))}


@st.composite
def json_cases(draw):
    # JSON-only routes: the classes excluded for open findings of the pysnmp backend are generated here
    return {'mset': draw(mibgen.module_sets(_profile(('json',))))}


def prop(case, rec):
    mset = case['mset']
    c, mm = setcheck.evaluate(mset, backends=('json', 'pysnmp'))
    rec.evaluated()
    fwd, cross = setcheck.classify_set(mset, rec)
    deep = any(len(d.get('num', ())) >= 9 for m in mset['modules'] for d in m['decls'])
    if deep:
        rec.count('with-deep-oid')
    if fwd or cross or deep:
        rec.mark_nontrivial(setcheck.set_digest(mset))
    for m in mset['modules']:
        for d in m['decls']:
            if 'oid' in d:
                rec.count('first.' + d['oid']['first'][0])
                if any(a[0] == 'nn' for a in d['oid']['arcs']):
                    rec.count('arc.name(number)')
    for b_, f_, d_ in mm:
        if f_ in ('py-syntax', 'py-exec'):
            rec.count('pysnmp-module-not-executable(C04)')
    setcheck.raise_first(mm, FACETS, case, c)
    rec.sample({'texts': dict((k, v[:700]) for k, v in c.texts.items())})


# -- route (c): MibCompiler.compile() status attributes ---------------------------------------------


@st.composite
def compile_cases(draw):
    c = draw(json_cases())
    c['mode'] = draw(st.sampled_from(('all', 'all', 'top', 'top-noDeps')))
    return c


def compile_prop(case, rec):
    from pysmi.compiler import MibCompiler
    from pysmi.reader.callback import CallbackReader
    from pysmi.writer.callback import CallbackWriter
    from pysmi.searcher.stub import StubSearcher
    from pysmi.codegen.jsondoc import JsonCodeGen
    mset = case['mset']
    texts = {}
    for m in mset['modules']:
        texts[m['name']] = mibgen.render_simple(m)

    def read(name, ctx):
        if name in texts:
            return texts[name]
        if name in fixtures.available():
            return fixtures.text(name)
        return ''

    written = {}
    comp = MibCompiler(pipeline.parser('smiV1Relaxed'), JsonCodeGen(), CallbackWriter(lambda n, d, c: written.__setitem__(n, d)))
    comp.addSources(CallbackReader(read))
    comp.addSearchers(StubSearcher(*fixtures.BASE_MODULES))
    top = mset['modules'][-1]['name']
    mode = case.get('mode', 'all')
    rec.count('compile.mode.' + mode)
    # the modules the request reaches through IMPORTS
    byname = dict((m['name'], m) for m in mset['modules'])
    reach, todo = [], [top]
    while todo:
        n = todo.pop()
        if n in reach or n not in byname:
            continue
        reach.append(n)
        todo += [frm for frm, syms in byname[n]['imports']]
    try:
        if mode == 'all':
            res = comp.compile(*[m['name'] for m in mset['modules']])
        elif mode == 'top':
            res = comp.compile(top)
        else:
            # only the requested module is generated, its dependencies (however deep) are still read
            res = comp.compile(top, noDeps=True)
    except Exception as e:
        raise Violation('compile-raised', repr(e), case, {'texts': texts})
    rec.evaluated()
    setcheck.classify_set(mset, rec)
    for m in mset['modules']:
        name = m['name']
        stt = res.get(name)
        if mode != 'all' and name not in reach:
            continue
        if mode == 'top-noDeps' and name != top:
            if stt != 'untouched':
                raise Violation('compile-status', '%s: dependency under noDeps has status %r (error %r)' % (
                    name, stt, getattr(stt, 'error', None)), case, {'texts': texts})
            continue
        if stt != 'compiled':
            raise Violation('compile-failed', '%s: status %r error %r' % (name, stt, getattr(stt, 'error', None)),
                            case, {'texts': texts})
        want = set('.'.join(str(x) for x in d['num']) for d in m['decls'] if 'num' in d)
        got = set(getattr(stt, 'oids', ()) or ())
        if got != want:
            raise Violation('status.oids', '%s: missing %r unexpected %r' % (name, sorted(want - got), sorted(got - want)),
                            case, {'texts': texts})
        mi = [d for d in m['decls'] if d['k'] == 'mi']
        ident = getattr(stt, 'identity', None)
        if mi:
            w = '.'.join(str(x) for x in mi[0]['num'])
            if ident != w:
                raise Violation('status.identity', '%s: identity %r, expected %r' % (name, ident, w), case, {'texts': texts})
            rec.count('with-module-identity')
        elif ident:
            raise Violation('status.identity', '%s: identity %r but module has no MODULE-IDENTITY' % (name, ident),
                            case, {'texts': texts})
        wc = sorted('.'.join(str(x) for x in d['num']) for d in m['decls'] if d['k'] == 'mc')
        gc = sorted(getattr(stt, 'compliance', ()) or ())
        if wc != gc:
            raise Violation('status.compliance', '%s: compliance %r, expected %r' % (name, gc, wc), case, {'texts': texts})
        ent_oids = [o for o in want if o.startswith('1.3.6.1.4.1.')]
        ent = getattr(stt, 'enterprise', None)
        if ent_oids:
            rec.count('with-enterprise-oid')
            if not ent or ent not in set('.'.join(o.split('.')[:7]) for o in ent_oids):
                raise Violation('status.enterprise', '%s: enterprise %r, OIDs under enterprises: %r' % (
                    name, ent, sorted(ent_oids)[:5]), case, {'texts': texts})
        elif ent:
            raise Violation('status.enterprise', '%s: enterprise %r but no OID lies under 1.3.6.1.4.1' % (name, ent),
                            case, {'texts': texts})
    if len(mset['modules']) > 1 or any(mibgen.forward_refs(m) for m in mset['modules']):
        rec.mark_nontrivial(setcheck.set_digest(['compile', mset]))


PROBE_D07 = {'modules': [{'name': 'T-MIB', 'dialect': 'v2', 'exports': None,
                          'imports': [['SNMPv2-SMI', ['Integer32']]],
                          'decls': [
                              {'k': 'td', 'name': 'TypeA', 'syntax': {'base': ['named', 'TypeB', 'T-MIB'], 'sub': None, 'tag': None}},
                              {'k': 'td', 'name': 'TypeB', 'syntax': {'base': ['named', 'TypeC', 'T-MIB'], 'sub': None, 'tag': None}},
                              {'k': 'td', 'name': 'TypeC', 'syntax': {'base': 'Integer32', 'sub': None, 'tag': None}}]}]}


def probes(ctx):
    def p(rec):
        c, mm = setcheck.evaluate(PROBE_D07, backends=('json',))
        rec.evaluated()
        ctx.probe('D07', any(f == 'compile-failed' for b, f, d in mm))
    ctx.inline('probe', p)


def run(ctx):
    ctx.search('codegen', cases, prop, ctx.pick(1600, 40000))
    ctx.search('compile', compile_cases, compile_prop, ctx.pick(1600, 30000))
    probes(ctx)


def replay(ctx, data):
    from vlib.core import Recorder
    rec = Recorder(ctx.findings)
    if data.get('search') == 'compile':
        compile_prop(data['case'], rec)
    else:
        prop(data['case'], rec)
