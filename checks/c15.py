"""C15 - descriptive texts reach the output intact and only when requested.

JSON oracle: with genTexts off no description / reference / organization / contactinfo member exists; with it on
each equals the source text exactly under the identity filter and whitespace-run-normalised under the default;
units / displayhint / productrelease / revision descriptions are compared in both modes.
pysnmp oracle (recording builder): every string handed to setDescription / setReference / setOrganization /
setContactInfo / setUnits / setProductRelease, class attributes displayHint / description equal the source text
after deleting all whitespace; with genTexts off none of the guarded setters receives text.
"""
import re

from hypothesis import strategies as st

from vlib.core import Violation
from vlib import mibgen, setcheck, pipeline, oracle

ID = 'C15'
LEVEL = 'exploration'
RULE = ('Hypothesis draws modules whose every text-bearing clause (DESCRIPTION of all clause kinds, REFERENCE, '
        'ORGANIZATION, CONTACT-INFO, UNITS, DISPLAY-HINT, PRODUCT-RELEASE, REVISION descriptions) carries a string '
        'built from a trouble-weighted alphabet: backslash sequences, apostrophe runs, Jinja look-alikes, tabs, '
        'LF/CRLF/CR, space runs, unbroken words of 90-140 chars, unbroken words of 90-200 chars made of backslashes and the letters '
        'after them, empty string, Latin-1/CJK/astral characters; '
        'genTexts on/off x default/identity text filter. Non-trivial: some text of the module contains a '
        'backslash, an apostrophe run, a line break, a > 79-char word or a non-ASCII character. Distinct = model hash.')
ASSUMPTIONS = [
    'pysnmp texts are compared after deleting all whitespace from both sides ("up to whitespace")',
    'an empty text may be omitted from the output',
    'NUL characters and double quotes are not generated inside MIB strings',
    'while finding D18 is open the pysnmp facet uses the alphabet without backslashes and keeps single-line '
    'clauses (UNITS, DISPLAY-HINT, PRODUCT-RELEASE, capabilities REFERENCE) free of line breaks',
]

JSON_FACETS = ('compile-failed', 'json-syntax', 'text', 'text-when-not-requested', 'units', 'displayhint',
               'productrelease', 'revisions', 'lastupdated')


def _json_profile():
    return setcheck.profile_for(None, backends=('json',), dialects=('v2', 'v2', 'v2', 'v1'), modules=(1, 1),
                                decls=(3, 12), texts='nasty', skipblocks=False, defval=False)


def _py_profile():
    from vlib.core import load_findings
    f = load_findings(None).get('D18')
    d18_open = bool(f and f.get('state') == 'known')
    return setcheck.profile_for(None, backends=('json', 'pysnmp'), dialects=('v2', 'v2', 'v2', 'v1'), modules=(1, 1),
                                decls=(3, 10), texts='pysafe' if d18_open else 'nasty',
                                oneline_short_texts=d18_open, skipblocks=False, defval=False)


@st.composite
def json_cases(draw):
    return {'mset': draw(mibgen.module_sets(_json_profile())), 'genTexts': draw(st.booleans()),
            'keep': draw(st.booleans())}


@st.composite
def py_cases(draw):
    return {'mset': draw(mibgen.module_sets(_py_profile())), 'genTexts': draw(st.booleans()),
            'keep': draw(st.booleans())}


def _all_texts(mset):
    out = []
    for m in mset['modules']:
        for d in m['decls']:
            for k in ('descr', 'ref', 'org', 'contact', 'units', 'display', 'release'):
                if d.get(k) is not None:
                    out.append(d[k])
            for r in d.get('revisions') or []:
                out.append(r[1])
    return out


def _classify(mset, rec):
    texts = _all_texts(mset)
    feats = set()
    for t in texts:
        if '\\' in t:
            feats.add('backslash')
        if "''" in t:
            feats.add('apostrophes')
        if re.search(r'[\r\n]', t):
            feats.add('linebreak')
        if re.search(r'\S{80,}', t):
            feats.add('longword')
        if re.search(r'[^\x00-\x7f]', t):
            feats.add('nonascii')
        if t == '':
            feats.add('empty')
        if '{{' in t or '{%' in t:
            feats.add('jinja-lookalike')
    for f in feats:
        rec.count('text.' + f)
    rec.count('texts', len(texts))
    return bool(feats - set(['empty', 'jinja-lookalike']))


def json_prop(case, rec):
    mset = case['mset']
    c, mm = setcheck.evaluate(mset, backends=('json',), genTexts=case['genTexts'], keep_layout=case['keep'])
    rec.evaluated()
    rec.count('genTexts.%s/keepLayout.%s' % (case['genTexts'], case['keep']))
    if _classify(mset, rec):
        rec.mark_nontrivial(setcheck.set_digest(case))
    setcheck.raise_first(mm, JSON_FACETS, case, c)
    rec.sample({'texts': dict((k, v[:700]) for k, v in c.texts.items()), 'genTexts': case['genTexts']})


def _nows(t):
    return re.sub(r'\s+', '', t)


GUARDED = {'descr': 'setDescription', 'ref': 'setReference', 'org': 'setOrganization', 'contact': 'setContactInfo'}


def py_prop(case, rec):
    mset = case['mset']
    gen = case['genTexts']
    tf = (lambda s, t: t) if case['keep'] else None
    c = pipeline.run_set(mset, backends=('pysnmp',), genTexts=gen, textFilter=tf)
    rec.evaluated()
    rec.count('py.genTexts.%s' % gen)
    if _classify(mset, rec):
        rec.mark_nontrivial(setcheck.set_digest(['py', case]))
    norm = (lambda t: t) if case['keep'] else oracle.norm_default
    for (mname, stage), e in c.errors.items():
        raise Violation('compile-failed', '%s %s: %r' % (mname, stage, e), case, {'texts': c.texts})
    for m in mset['modules']:
        name = m['name']
        text = c.py_text[name]
        try:
            compile(text, name, 'exec')
        except (SyntaxError, ValueError) as e:
            raise Violation('pysnmp:py-syntax', '%s: %r' % (name, e), case, {'texts': c.texts})
        try:
            b, ns = pipeline.exec_module(text, name, loadTexts=True)
        except Exception as e:
            # not caused by texts (C04 owns "the module loads"): nothing can be observed for this module
            rec.count('pysnmp-module-not-executable(C04)')
            continue
        exports = b.exports.get(name, {})
        for d in m['decls']:
            key = mibgen.mapped(d.get('name', ''))
            obj = exports.get(key, ns.get(key))
            if obj is None or d['k'] in ('seq', 'macro', 'choice', 'td'):
                continue
            where = '%s::%s' % (name, key)
            if isinstance(obj, type):
                attrs = vars(obj)
                if d['k'] == 'tc':
                    _cmp(where, 'displayHint', d.get('display'), attrs.get('displayHint'), True, case, c)
                    _cmp(where, 'description', norm(d['descr']) if d.get('descr') is not None else None,
                         attrs.get('description'), gen, case, c)
                continue
            desc = pipeline.describe(obj)
            for field, setter in GUARDED.items():
                if d.get(field) is None:
                    continue
                if d['k'] == 'mi' and field == 'ref':
                    continue
                got = [a[0] for a in pipeline.calls_named(desc, setter)]
                _cmp(where, setter, norm(d[field]), got[0] if got else None, gen, case, c, ncalls=len(got))
            if d.get('units') is not None:
                got = [a[0] for a in pipeline.calls_named(desc, 'setUnits')]
                _cmp(where, 'setUnits', norm(d['units']), got[0] if got else None, True, case, c, ncalls=len(got))
            if d.get('release') is not None:
                got = [a[0] for a in pipeline.calls_named(desc, 'setProductRelease')]
                _cmp(where, 'setProductRelease', d['release'], got[0] if got else None, True, case, c, ncalls=len(got))
    rec.sample({'texts': dict((k, v[:600]) for k, v in c.texts.items()), 'genTexts': gen})


def _cmp(where, what, want, got, requested, case, c, ncalls=1):
    if not requested:
        if got not in (None, ''):
            raise Violation('pysnmp:text-when-not-requested', '%s: %s(%r) with genTexts off' % (where, what, got), case,
                            {'texts': c.texts})
        return
    if want is None:
        return
    if got is None:
        if _nows(want) == '':
            return
        return 'not-emitted'   # the statement constrains texts that are emitted; omission is not a violation
    if not isinstance(got, str) or _nows(got) != _nows(want):
        raise Violation('pysnmp:text', '%s: %s got %r, source text %r' % (where, what, got, want), case,
                        {'texts': c.texts})


PROBE_D18 = r'''T-MIB DEFINITIONS ::= BEGIN
IMPORTS OBJECT-TYPE, Integer32 FROM SNMPv2-SMI;
obj OBJECT-TYPE SYNTAX Integer32 UNITS "a\x4" MAX-ACCESS read-only STATUS current
  DESCRIPTION "c:\new\table" ::= { 1 3 }
END
'''


def probes(ctx):
    def p(rec):
        from pysmi.codegen.symtable import SymtableCodeGen
        from pysmi.codegen.pysnmp import PySnmpCodeGen
        from vlib import fixtures
        bad = False
        try:
            tree = pipeline.parser('smiV2').parse(PROBE_D18)[0]
            st_ = fixtures.symtables()
            info, s = SymtableCodeGen().genCode(tree, st_)
            st_[info.name] = s
            info, text = PySnmpCodeGen().genCode(tree, st_, genTexts=True)
            b, ns = pipeline.exec_module(text, 'T-MIB')
            d = pipeline.describe(b.exports['T-MIB']['obj'])
            got = pipeline.calls_named(d, 'setDescription')[0][0]
            bad = _nows(got) != _nows('c:\\new\\table')
        except Exception:
            bad = True
        rec.evaluated()
        ctx.probe('D18', bad)
    ctx.inline('probe', p)


def run(ctx):
    ctx.search('json', json_cases, json_prop, ctx.pick(4000, 80000))
    ctx.search('pysnmp', py_cases, py_prop, ctx.pick(2000, 40000))
    probes(ctx)


def replay(ctx, data):
    from vlib.core import Recorder
    rec = Recorder(ctx.findings)
    if data.get('search') == 'pysnmp':
        py_prop(data['case'], rec)
    else:
        json_prop(data['case'], rec)
