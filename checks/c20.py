"""C20 - command-line tools report and leave on disk exactly what happened.

mibdump and mibcopy are run as real subprocesses on generated on-disk worlds.
mibdump oracle: usage errors exit 64; otherwise exit 0 <=> the report lists nothing under "Missing source MIBs" /
"Failed MIBs"; the report categories are disjoint and cover the modules of the model's import closure; the
destination directory afterwards == pre-existing files + <module><ext> for every module reported created or
borrowed (+ index with --build-index, + __pycache__); unchanged under --dry-run / --no-mib-writes; healthy worlds
are fully created, worlds with a bad member create nothing unless --ignore-errors.
mibcopy oracle: exit 0; for every module name seen the destination holds <canonical name> whose bytes equal a copy
(source or pre-existing) with maximal latest REVISION; nothing else appears; with a unique newest copy the result
is identical for every visiting order.
"""
import copy
import itertools
import os
import re
import shutil
import subprocess
import sys
import tempfile

from hypothesis import strategies as st

from vlib.core import Violation, digest, VERIF, REPO
from vlib import mibgen, setcheck, fixtures

ID = 'C20'
LEVEL = 'exploration'
RULE = ('mibdump: Hypothesis draws an on-disk world (1-3 generated modules importing each other; healthy, one '
        'dependency removed, one member lexically or semantically broken, a file named unlike its module) and an '
        'argv (format json / pysnmp / null, --no-dependencies, --rebuild, --dry-run, --no-mib-writes, '
        '--ignore-errors, --build-index, --generate-mib-texts, --no-python-compile, --mib-stub, pre-populated '
        'destination; usage errors); non-trivial = a world with >= 1 failing and >= 1 healthy module, or a '
        'file/module name mismatch, or a write-suppressing option. mibcopy: 2-4 source files in 1-2 directories, each '
        'module in 1-3 copies with distinct / equal / absent REVISIONs, optional pre-existing destination copy, '
        'visited in every permutation of the file arguments (<= 4 files: all orders) and as directories; '
        'non-trivial = >= 2 copies of a name and >= 2 orders. Distinct = hash of world + argv. Copies without any '
        'MODULE-IDENTITY and destination paths taken by a directory are drawn too.')
ASSUMPTIONS = [
    'every run passes explicit local --mib-source / --mib-borrower values (the defaults point at the network)',
    'latest revision of a copy = its first REVISION clause (newest first, as SMIv2 requires); no REVISION = epoch',
    'with several newest copies (equal revisions, different bytes) any of them is a valid survivor; order '
    'independence is only demanded when the newest copy is unique',
    'index.<ext> may be written with --build-index even when the compile was abandoned',
    '--build-index is only combined with the JSON format (the other code generators do not implement an index)',
]

PY = sys.executable
ENV = dict(os.environ, PYTHONPATH=REPO, PYTHONHASHSEED='0', TZ='UTC')


def run_tool(script, args, cwd=None, hashseed=None):
    env = dict(ENV)
    if hashseed is not None:
        env['PYTHONHASHSEED'] = str(hashseed)
    p = subprocess.run([PY, os.path.join(REPO, 'scripts', script)] + args, cwd=cwd, env=env,
                       stdout=subprocess.PIPE, stderr=subprocess.PIPE, timeout=120)
    return p.returncode, p.stderr.decode('utf-8', 'replace')


def base_dir(root):
    d = os.path.join(root, 'base')
    os.makedirs(d)
    for n in fixtures.available():
        with open(os.path.join(d, n), 'w') as f:
            f.write(fixtures.text(n))
    return d


def listing(d):
    out = {}
    if not os.path.isdir(d):
        return out
    for dp, dn, fn in os.walk(d):
        if '__pycache__' in dp:
            continue
        for f in fn:
            p = os.path.join(dp, f)
            with open(p, 'rb') as fh:
                out[os.path.relpath(p, d)] = fh.read()
    return out


# ---------------------------------------------------------------------------
# mibdump


def _dump_profile():
    return setcheck.profile_for(None, backends=('json', 'pysnmp'), dialects=('v2',), modules=(1, 3), decls=(2, 7),
                                texts='short', skipblocks=False, hyphens=False)


@st.composite
def dump_cases(draw):
    mset = draw(mibgen.module_sets(_dump_profile()))
    names = [m['name'] for m in mset['modules']]
    world = draw(st.sampled_from(('healthy', 'healthy', 'missing-dep', 'broken-lex', 'broken-semantic', 'alias')))
    fmt = draw(st.sampled_from(('json', 'json', 'pysnmp', 'null')))
    flags = [f for f in ('--no-dependencies', '--rebuild', '--dry-run', '--no-mib-writes', '--ignore-errors', '--build-index',
                         '--generate-mib-texts', '--keep-texts-layout', '--no-python-compile', '--quiet-not-used')
             if f != '--quiet-not-used' and draw(st.integers(0, 4)) == 0]
    if fmt != 'json':
        # only the JSON backend implements genIndex(); --build-index with the others is outside the documented use
        flags = [f for f in flags if f != '--build-index']
    usage = draw(st.sampled_from((None,) * 9 + ('unknown-option', 'no-mib', 'bad-format', 'bad-optlevel')))
    return {'mset': mset, 'world': world, 'victim': draw(st.integers(0, len(names) - 1)), 'format': fmt, 'flags': flags,
            'usage': usage, 'prepopulate': draw(st.booleans()), 'stub': draw(st.booleans()),
            # the path the requested module would be stored under is taken by a directory
            'obstacle': world == 'healthy' and fmt != 'null' and usage is None and draw(st.integers(0, 2)) == 0,
            'hashseed': draw(st.sampled_from((0, 0, 1, 7)))}


def parse_report(err):
    cats = {}
    for key, pat in (('created', r'[Cc]reated/updated MIBs: (.*)'), ('borrowed', r'Pre-compiled MIBs (?:Would be )?borrowed: (.*)'),
                     ('untouched', r'Up to date MIBs: (.*)'), ('missing', r'Missing source MIBs: (.*)'),
                     ('ignored', r'Ignored MIBs: (.*)'), ('failed', r'Failed MIBs: (.*)')):
        m = re.search(pat, err)
        if not m:
            cats[key] = None
            continue
        body = m.group(1).strip()
        if key == 'failed':
            items = re.findall(r'(?:^|, )([A-Za-z][-A-Za-z0-9]*) \(', body)
        else:
            items = [re.sub(r' \(.*\)$', '', x.strip()) for x in body.split(', ') if x.strip()]
        cats[key] = items
    return cats


def dump_prop(case, rec):
    root = tempfile.mkdtemp(prefix='c20d')
    try:
        src = os.path.join(root, 'src')
        dst = os.path.join(root, 'dst')
        bor = os.path.join(root, 'borrow')
        os.makedirs(src)
        os.makedirs(bor)
        based = base_dir(root)
        mods = case['mset']['modules']
        names = [m['name'] for m in mods]
        victim = names[case['victim']]
        world = case['world']
        request = [names[-1]]
        file_of = {}
        for m in mods:
            text = mibgen.render_simple(m)
            fname = m['name']
            if m['name'] == victim:
                if world == 'missing-dep':
                    continue
                if world == 'broken-lex':
                    text = text.replace('::=', '::= $', 1)
                elif world == 'broken-semantic':
                    text = text.replace('END', 'zzUnknownParent OBJECT IDENTIFIER ::= { noSuchNodeAnywhere 1 }\nEND')
                elif world == 'alias':
                    fname = 'zold' + str(case['victim'])
            file_of[m['name']] = fname
            with open(os.path.join(src, fname + ('.txt' if fname.startswith('zold') else '')), 'w') as f:
                f.write(text)
        if world == 'alias' and victim == names[-1]:
            request = [file_of[victim]]
        # which modules are in the closure of the request, which of them are bad
        byname = dict((m['name'], m) for m in mods)
        closure = []
        todo = [names[-1]]
        while todo:
            n = todo.pop()
            if n in closure:
                continue
            closure.append(n)
            unfindable = n == victim and (world in ('missing-dep', 'broken-lex', 'broken-semantic')
                                          or (world == 'alias' and victim != names[-1]))
            if n in byname and not unfindable:
                for frm, syms in byname[n]['imports']:
                    if frm in byname:
                        todo.append(frm)
        bad = [victim] if world in ('missing-dep', 'broken-lex', 'broken-semantic') and victim in closure else []
        if world == 'alias' and victim in closure and victim != names[-1]:
            # an imported module that only exists under another file name cannot be found
            bad = [victim]
        ext = {'json': '.json', 'pysnmp': '.py', 'null': None}[case['format']]
        pre = {}
        if case['prepopulate']:
            os.makedirs(dst)
            with open(os.path.join(dst, 'KEEP-ME.txt'), 'w') as f:
                f.write('keep')
        obstacle = None
        if case.get('obstacle') and ext:
            obstacle = names[-1]
            os.makedirs(os.path.join(dst, obstacle + ext))
            with open(os.path.join(dst, obstacle + ext, 'inside.txt'), 'w') as f:
                f.write('x')
        pre = listing(dst)
        args = ['--mib-source=' + src, '--mib-source=' + based, '--mib-borrower=' + bor, '--destination-directory=' + dst,
                '--destination-format=' + case['format']] + list(case['flags'])
        if case['format'] == 'pysnmp':
            args.append('--mib-searcher=' + os.path.join(root, 'nosuchsearcherdir'))
        if case['stub']:
            args.append('--mib-stub=' + 'NOT-USED-MIB')
            for b in fixtures.BASE_MODULES:
                args.append('--mib-stub=' + b)
        usage = case['usage']
        if usage == 'unknown-option':
            args.append('--no-such-option')
        if usage == 'bad-format':
            args = [a for a in args if not a.startswith('--destination-format')] + ['--destination-format=xml']
        if usage == 'bad-optlevel':
            args.append('--python-optimization-level=fast')
        if usage != 'no-mib':
            args += request
        rc, err = run_tool('mibdump.py', args, hashseed=case['hashseed'])
        rec.evaluated()
        rec.count('dump.world.' + world)
        rec.count('dump.format.' + case['format'])
        extra = {'argv': args, 'stderr': err[-1500:], 'exit': rc}
        post = listing(dst)
        if usage:
            rec.count('dump.usage-error')
            if rc != 64:
                raise Violation('usage-error-exit-code', '%s: exit %d, expected 64' % (usage, rc), case, extra)
            if post != pre:
                raise Violation('usage-error-wrote-files', repr(sorted(post)), case, extra)
            rec.mark_nontrivial(digest(case))
            return
        if rc not in (0, 79):
            raise Violation('unexpected-exit-code', 'exit %d' % rc, case, extra)
        cats = parse_report(err)
        if any(v is None for v in cats.values()):
            raise Violation('report-incomplete', repr(cats), case, extra)
        allnames = [n for v in cats.values() for n in v]
        if len(allnames) != len(set(allnames)):
            raise Violation('module-in-two-categories', repr(cats), case, extra)
        trouble = bool(cats['missing'] or cats['failed'])
        if (rc == 0) != (not trouble):
            raise Violation('exit-code-vs-report', 'exit %d, missing %r failed %r' % (rc, cats['missing'], cats['failed']), case, extra)
        for n in closure:
            if n not in allnames:
                raise Violation('module-not-reported', '%s (closure %r) appears in no category: %r' % (n, closure, cats), case, extra)
        # files
        dry = '--dry-run' in case['flags'] or '--no-mib-writes' in case['flags']
        expect = dict(pre)
        new_files = set(post) - set(pre)
        for k, v in pre.items():
            if post.get(k) != v:
                raise Violation('pre-existing-file-changed', k, case, extra)
        want_new = set()
        if ext and not dry:
            want_new = set(n + ext for n in cats['created'] + cats['borrowed'])
        allowed_extra = set()
        if '--build-index' in case['flags'] and ext and '--dry-run' not in case['flags']:
            allowed_extra.add('index' + ext)
        if not (want_new <= new_files and new_files <= want_new | allowed_extra):
            raise Violation('destination-vs-report', 'new files %r, reported created/borrowed %r (dry=%s)' % (
                sorted(new_files), sorted(want_new), dry), case, extra)
        # model expectations
        noignore = '--ignore-errors' not in case['flags']
        nodeps = '--no-dependencies' in case['flags']
        if obstacle and not dry:
            rec.count('dump.obstacle')
            if obstacle not in cats['failed']:
                raise Violation('unstorable-module-not-reported-failed', '%s cannot be stored (its path is a directory): %r' % (obstacle, cats), case, extra)
        elif not bad:
            if trouble:
                raise Violation('healthy-world-reported-trouble', repr(cats), case, extra)
            if names[-1] not in cats['created']:
                raise Violation('requested-module-not-created', repr(cats), case, extra)
        else:
            for b in bad:
                if b not in cats['missing'] + cats['failed']:
                    raise Violation('bad-module-not-reported', '%s: %r' % (b, cats), case, extra)
            if noignore and cats['created']:
                raise Violation('created-despite-failure', repr(cats), case, extra)
            if not noignore:
                healthy = [n for n in closure if n not in bad and n in byname and not _imports_bad(byname, n, bad)]
                for n in healthy:
                    if n not in cats['created'] + cats['untouched']:
                        raise Violation('healthy-module-dropped', '%s: %r' % (n, cats), case, extra)
        if (bad and len(closure) > len(bad)) or world == 'alias' or dry:
            rec.mark_nontrivial(digest(case))
        rec.sample({'argv': [a.replace(root, '<root>') for a in args], 'exit': rc, 'report': cats, 'new_files': sorted(new_files)})
    finally:
        shutil.rmtree(root, ignore_errors=True)


def _imports_bad(byname, n, bad, seen=None):
    seen = seen or set()
    for frm, syms in byname[n]['imports']:
        if frm in bad:
            return True
        if frm in byname and frm not in seen:
            seen.add(frm)
            if _imports_bad(byname, frm, bad, seen):
                return True
    return False


# ---------------------------------------------------------------------------
# mibcopy

REVS = ['199901010000Z', '200001010000Z', '200506070809Z', '201012310000Z', '202002290000Z']


def mib_copy_text(name, rev, marker, nomi=False):
    if nomi and rev is None:
        # SMIv1 style: no MODULE-IDENTITY at all
        return ('%s DEFINITIONS ::= BEGIN\n-- copy %s\n%sNode OBJECT IDENTIFIER ::= { 1 3 6 1 4 1 99 %d }\nEND\n' % (
            name, marker, name.lower().replace('-', ''), (sum(ord(c) for c in name) % 1000) + 1))
    revs = ''
    if rev is not None:
        revs = ' REVISION "%s" DESCRIPTION "rev %s"' % (rev, marker)
    return ('%s DEFINITIONS ::= BEGIN\nIMPORTS MODULE-IDENTITY FROM SNMPv2-SMI;\n'
            '%sIdentity MODULE-IDENTITY LAST-UPDATED "%s" ORGANIZATION "o" CONTACT-INFO "c" DESCRIPTION "copy %s"%s\n'
            ' ::= { 1 3 6 1 4 1 99 %d }\nEND\n' % (name, name.lower().replace('-', ''), rev or '199001010000Z', marker, revs,
                                                    (sum(ord(c) for c in name) % 1000) + 1))


@st.composite
def copy_cases(draw):
    nmods = draw(st.integers(1, 2))
    files = []
    for mi in range(nmods):
        name = ('ALPHA-MIB', 'BETA-MIB')[mi]
        ncopies = draw(st.integers(1, 3))
        for ci in range(ncopies):
            if len(files) >= 4:
                break
            rev = draw(st.sampled_from(REVS + [None]))
            d = draw(st.sampled_from(('d1', 'd2')))
            fname = draw(st.sampled_from((name, name.lower() + '.txt', 'zold%d%d.mib' % (mi, ci), name + '.my')))
            if any(f['dir'] == d and f['file'] == fname for f in files):
                fname = 'copy%d%d-%s' % (mi, ci, fname)
            files.append({'module': name, 'rev': rev, 'dir': d, 'file': fname, 'marker': '%d-%d' % (mi, ci),
                          'nomi': rev is None and draw(st.booleans())})
    pre = None
    if draw(st.booleans()):
        # half of the time the destination already holds the newest revision of all (left by an earlier run)
        pre = {'module': files[0]['module'], 'rev': REVS[-1] if draw(st.booleans()) else draw(st.sampled_from(REVS + [None])),
               'marker': 'pre'}
    return {'files': files, 'pre': pre, 'as_dirs': draw(st.integers(0, 3)) == 0, 'hashseed': draw(st.sampled_from((0, 3))),
            'reldst': draw(st.booleans())}    # destination typed as a relative path (cwd = its parent)


def _revkey(rev):
    if rev is None:
        return (0,)
    r = rev if len(rev) == 13 else '19' + rev
    return (1, r)


def copy_prop(case, rec):
    files = case['files']
    orders = list(itertools.permutations(range(len(files)))) if not case['as_dirs'] else [('dirs', 'd1', 'd2'), ('dirs', 'd2', 'd1')]
    if len(orders) > 24:
        orders = orders[:24]
    finals = []
    copies = {}
    for f in files:
        copies.setdefault(f['module'], []).append((f['rev'], mib_copy_text(f['module'], f['rev'], f['marker'], f.get('nomi')).encode()))
    if case['pre']:
        copies.setdefault(case['pre']['module'], []).append((case['pre']['rev'], mib_copy_text(case['pre']['module'], case['pre']['rev'], 'pre').encode()))
    unique_newest = {}
    for mod, lst in copies.items():
        best = max(_revkey(r) for r, b in lst)
        newest = set(b for r, b in lst if _revkey(r) == best)
        unique_newest[mod] = newest
    for order in orders:
        root = tempfile.mkdtemp(prefix='c20c')
        try:
            based = base_dir(root)
            dst = os.path.join(root, 'dst')
            for f in files:
                d = os.path.join(root, f['dir'])
                os.makedirs(d, exist_ok=True)
                with open(os.path.join(d, f['file']), 'w') as fh:
                    fh.write(mib_copy_text(f['module'], f['rev'], f['marker'], f.get('nomi')))
            if case['pre']:
                os.makedirs(dst)
                with open(os.path.join(dst, case['pre']['module']), 'w') as fh:
                    fh.write(mib_copy_text(case['pre']['module'], case['pre']['rev'], 'pre'))
            if order[0] == 'dirs':
                srcs = [os.path.join(root, d) for d in order[1:] if os.path.isdir(os.path.join(root, d))]
            else:
                srcs = [os.path.join(root, files[i]['dir'], files[i]['file']) for i in order]
            args = ['--mib-source=' + based] + srcs + ['dst' if case.get('reldst') else dst]
            rc, err = run_tool('mibcopy.py', args, cwd=root if case.get('reldst') else None, hashseed=case['hashseed'])
            rec.evaluated()
            extra = {'argv': [a.replace(root, '<root>') for a in args], 'stderr': err[-1200:], 'exit': rc}
            if rc != 0:
                raise Violation('mibcopy-exit-code', 'exit %d' % rc, case, extra)
            post = listing(dst)
            if set(post) != set(copies):
                raise Violation('mibcopy-destination-names', 'destination holds %r, modules seen %r' % (sorted(post), sorted(copies)), case, extra)
            for mod, data in post.items():
                if data not in unique_newest[mod]:
                    which = [r for r, b in copies[mod] if b == data]
                    raise Violation('mibcopy-kept-older-copy', '%s: destination holds the copy with revision %r, newest is %r (order %r)' % (
                        mod, which, sorted(set(str(r) for r, b in copies[mod] if b in unique_newest[mod])), order), case, extra)
            finals.append(post)
        finally:
            shutil.rmtree(root, ignore_errors=True)
    if all(len(v) == 1 for v in unique_newest.values()):
        for f in finals[1:]:
            if f != finals[0]:
                raise Violation('mibcopy-order-dependent', 'final destination differs between visiting orders', case)
    rec.count('copy.orders', len(orders))
    rec.count('copy.files.%d' % len(files))
    if any(len(v) >= 2 for v in copies.values()) and len(orders) >= 2:
        rec.mark_nontrivial(digest(case))
    rec.sample({'files': files, 'pre': case['pre'], 'orders': len(orders)})


def run(ctx):
    ctx.search('mibdump', dump_cases, dump_prop, ctx.pick(320, 6000), shrink=ctx.tier == 'thorough')
    ctx.search('mibcopy', copy_cases, copy_prop, ctx.pick(48, 1200), shrink=ctx.tier == 'thorough')


def replay(ctx, data):
    from vlib.core import Recorder
    rec = Recorder(ctx.findings)
    case = data['case']
    if 'files' in case:
        copy_prop(case, rec)
    else:
        dump_prop(case, rec)
