"""C19 - borrowing happens only for modules that cannot be compiled, and verbatim.

A (orchestration): real AnyFileBorrower objects over scripted readers; invariants of vlib/orchinv.borrower_protocol:
borrowers are consulted only for modules that failed every earlier stage, in the order added, with the request's
genTexts; a flavour-mismatching borrower never reaches its reader; the first one that returns supplies the text,
which is written verbatim under the module's name with status borrowed (untouched if a searcher reports it fresh,
unprocessed if another failure closes the gate); compiled modules are never offered; with noDeps requested failed
modules stay eligible while failed dependencies do not.
B (real PyFileBorrower / AnyFileBorrower over FileReader directories): only files with a listed extension match.
"""
import os
import shutil
import tempfile

from hypothesis import strategies as st

from vlib.core import Violation, digest
from vlib import orch, orchinv

ID = 'C19'
LEVEL = 'exploration'
RULE = ('A: Hypothesis draws orchestration scenarios with 0-3 borrowers (with-texts / without-texts flavour, holding '
        'text / nothing / a reader error per module) x failure placements (missing source, reader error, lexical / '
        'syntax / truncated / semantic / empty text, code generation failure) x noDeps / genTexts / ignoreErrors and '
        'searchers answering fresh for borrowed copies; non-trivial = >= 1 failed module held by some borrower, or a '
        'flavour mismatch in front of a matching borrower. B: Hypothesis draws directories holding <name>.py, '
        '<name>.json, <name>, upper/lower-case variants and asks PyFileBorrower / AnyFileBorrower(exts) for names; '
        'non-trivial = a file with a non-listed extension or other letter case is present. Distinct = case hash. Warm-up '
        'compile() calls and the complete small scope as for C07.')
ASSUMPTIONS = [
    'a module counts as failed when no source holds a usable text or its code generation raised',
    'B: the borrower readers use the matching options mibdump sets (lowcaseMatching off)',
]


def cases():
    return orch.scenarios(max_user=3)


def prop(case, rec):
    sc = case
    out = orch.run(sc)
    rec.evaluated()
    orchinv.basic(sc, out, case)
    f = orchinv.facts(sc, out)
    info = orchinv.borrower_protocol(sc, out, case, f)
    gen_texts = bool(sc['options'].get('genTexts'))
    flavours = [b['genTexts'] == gen_texts for b in sc['borrowers']]
    mismatch_first = any((not ok) and any(flavours[i + 1:]) for i, ok in enumerate(flavours))
    rec.count('borrowers.%d' % len(sc['borrowers']))
    rec.count('noDeps.%s' % bool(sc['options'].get('noDeps')))
    if mismatch_first:
        rec.count('flavour-mismatch-in-front')
    if info['borrowed']:
        rec.count('module-borrowable')
    for v in out.result.values():
        if v == 'borrowed':
            rec.count('status.borrowed')
    if info['borrowed'] or (mismatch_first and f['borrow_calls']):
        rec.mark_nontrivial(digest(sc))
    rec.sample({'borrowers': sc['borrowers'], 'options': sc['options'], 'sources': sc['sources'],
                'result': dict((k, str(v)) for k, v in out.result.items())})


# ---------------------------------------------------------------------------
# B: real borrowers over directories

NAMES = ('FOO-MIB', 'Bar-Mib', 'baz')
FILE_EXTS = ('.py', '.json', '', '.txt', '.PY', '.pyc')


# what a pre-transformed file may hold: DOS / old-Mac line ends, non-ASCII text, no final line end
SHAPES = (b'content of %s', b'# %s\r\nx = 1\r\n', b'# %s\rold mac\rline ends\r', b'{"name": "%s", "d": "caf\xc3\xa9 \xe4\xb8\xad"}\n',
          b'%s\n\n\r\n\ttabs and  spaces  \n')


def _content(fn, shape):
    return SHAPES[shape] % fn.encode()


@st.composite
def dir_cases(draw):
    files = []
    for n in NAMES:
        for variant in (n, n.upper(), n.lower()):
            for e in FILE_EXTS:
                if draw(st.integers(0, 5)) == 0:
                    files.append(variant + e)
    kind = draw(st.sampled_from(('py', 'any.json', 'any.multi')))
    return {'files': sorted(set(files)), 'kind': kind, 'ask': draw(st.sampled_from(NAMES)),
            'genTexts': draw(st.booleans()), 'flavour': draw(st.booleans()), 'shape': draw(st.integers(0, len(SHAPES) - 1))}


def dir_prop(case, rec):
    from pysmi.borrower.pyfile import PyFileBorrower
    from pysmi.borrower.anyfile import AnyFileBorrower
    from pysmi.reader.localfile import FileReader
    from pysmi import error
    d = tempfile.mkdtemp(prefix='c19b')
    try:
        for fn in case['files']:
            with open(os.path.join(d, fn), 'wb') as fh:
                fh.write(_content(fn, case.get('shape', 0)))
        listed = sorted(os.listdir(d))
        reader = FileReader(d).setOptions(lowcaseMatching=False)
        if case['kind'] == 'py':
            b = PyFileBorrower(reader, genTexts=case['flavour'])
            exts = ['.py']
        elif case['kind'] == 'any.json':
            b = AnyFileBorrower(reader, genTexts=case['flavour']).setOptions(exts=['.json'])
            exts = ['.json']
        elif case['kind'] == 'any.multi':
            b = AnyFileBorrower(reader, genTexts=case['flavour']).setOptions(exts=['.json', '.js'])
            exts = ['.json', '.js']
        else:
            b = AnyFileBorrower(reader, genTexts=case['flavour'])
            exts = ['']
        name = case['ask']
        try:
            info, data = b.getData(name, genTexts=case['genTexts'])
            got = info.file
        except error.PySmiError:
            got = None
        rec.evaluated()
        # reference: original and upper-case spellings (lowcaseMatching off), fuzzy -MIB handling, listed exts only
        stems = [name, name.upper()]
        if stems[-1].find('-mib') == -1 and True:
            pass
        cands = set()
        for s in stems:
            for e in exts:
                cands.add(s + e)
        # fuzzy matching adds -MIB / strips it; accept those spellings as documented variants too
        fuzzy = set()
        for s in (name + '-mib').upper(), (name + '-mib').lower():
            for e in exts:
                fuzzy.add(s + e)
        low = name.lower()
        if '-mib' in low:
            base = name[:low.find('-mib')]
            for s in (base, base.upper()):
                for e in exts:
                    fuzzy.add(s + e)
        allowed = cands | fuzzy
        if case['genTexts'] != case['flavour']:
            if got is not None:
                raise Violation('flavour-mismatch-returned-data', '%r' % got, case)
            rec.count('dir.flavour-mismatch')
            return
        if got is not None:
            if got not in allowed or got not in listed:
                raise Violation('borrowed-unlisted-extension', 'asked %s with exts %r, got file %r (dir: %r)' % (
                    name, exts, got, listed), case)
            if data != _content(got, case.get('shape', 0)).decode('utf-8', 'ignore'):
                raise Violation('borrowed-content', 'the borrowed copy is not the stored file verbatim: %r vs %r' % (
                    data, _content(got, case.get('shape', 0))), case)
            rec.count('dir.found')
        else:
            if any(c in listed for c in cands):
                raise Violation('borrowable-file-not-found', 'asked %s with exts %r, dir holds %r' % (name, exts, listed), case)
            rec.count('dir.notfound')
        decoy = [x for x in listed if x.split('.')[0].upper() == name.upper() and x not in allowed]
        if decoy:
            rec.mark_nontrivial(digest(case))
        rec.sample(case)
    finally:
        shutil.rmtree(d, ignore_errors=True)


def run(ctx):
    ctx.search('borrowers', cases, prop, ctx.pick(24000, 500000))
    ctx.search('real-borrowers', dir_cases, dir_prop, ctx.pick(4000, 60000))
    orch.small_sweep(ctx, lambda sc, rec: prop(sc, rec))


def replay(ctx, data):
    from vlib.core import Recorder
    case = data['case']
    if 'universe' in case:
        prop(case, Recorder(ctx.findings))
    else:
        dir_prop(case, Recorder(ctx.findings))
