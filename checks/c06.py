"""C06 - references between objects keep their targets, order and module attribution.

Oracle: reference model for nodetype (table/row/column/scalar), ordered INDEX lists with IMPLIED flag and
defining module, AUGMENTS target, OBJECTS / NOTIFICATIONS / VARIABLES lists and the mandatory + optional
groups of compliance statements - against JSON members and the setIndexNames / registerAugmentions /
setObjects calls captured by the recording builder.
"""
from hypothesis import strategies as st

from vlib import mibgen, setcheck

ID = 'C06'
LEVEL = 'exploration'
RULE = ('Hypothesis draws module sets (1-3 modules) of tables (1-5 columns, 1-4 index entries mixing own columns, '
        'columns of other tables, columns imported from other generated modules, IMPLIED last index, augmenting '
        'rows), scalars, notifications / traps / groups with 0-6 members mixing local and imported objects, and '
        'compliance statements with 1-3 MODULE clauses, mandatory groups and GROUP / OBJECT refinements in any '
        'interleaving; declaration order permuted. Non-trivial: a table with a foreign or IMPLIED index or an '
        'AUGMENTS row, or a member list of >= 3 mixing local and imported objects, or a compliance with >= 2 '
        'clauses. Distinct = model hash.')
ASSUMPTIONS = [
    'object names in lists are compared after the customary hyphen->underscore mapping',
    'a reference is attributed to the generated module that defines the object',
    'compliance groups are attributed to the module named in their MODULE clause (own module when empty)',
]

FACETS = ('compile-failed', 'nodetype', 'indices', 'augmention', 'objects', 'modulecompliance')


def _profile(backends=('json', 'pysnmp')):
    return setcheck.profile_for(None, backends=backends, dialects=('v2', 'v2', 'v2', 'v1'),
                                modules=(1, 3), decls=(4, 18), texts='short', skipblocks=False, defval=False,
                                kinds=('table', 'table', 'scalar', 'nt', 'og', 'ng', 'mc', 'mc', 'value'))


def _profile_v1(backends=('json', 'pysnmp')):
    return setcheck.profile_for(None, backends=backends, dialects=('v1',), modules=(1, 2),
                                decls=(4, 14), texts='short', skipblocks=False, defval=False,
                                kinds=('table', 'scalar', 'tt', 'tt', 'value'))


@st.composite
def cases(draw):
    prof = _profile_v1() if draw(st.integers(0, 4)) == 0 else _profile()
    return {'mset': draw(mibgen.module_sets(prof))}


@st.composite
def json_cases(draw):
    # JSON only: classes excluded for open findings of the pysnmp backend (hyphenated imports ...) are generated here
    prof = _profile_v1(('json',)) if draw(st.integers(0, 4)) == 0 else _profile(('json',))
    return {'mset': draw(mibgen.module_sets(prof))}


def _nontrivial(mset, rec):
    nt = False
    for m in mset['modules']:
        for d in m['decls']:
            if d['k'] == 'ot' and d['role'] == 'row':
                if d['augments']:
                    rec.count('row.augments')
                    nt = True
                for imp, ref in d['index'] or []:
                    if imp:
                        rec.count('index.implied')
                        nt = True
                    if ref[0] != m['name']:
                        rec.count('index.imported')
                        nt = True
                    elif not any(x['name'] == ref[1] and x.get('role') == 'column' and x['oid']['first'][2] == d['name']
                                 for x in m['decls'] if x['k'] == 'ot'):
                        rec.count('index.other-table')
                        nt = True
            for key in ('objects', 'vars', 'notifs'):
                lst = d.get(key)
                if lst and len(lst) >= 3 and len(set(r[0] for r in lst)) >= 2:
                    rec.count('list.mixed-modules')
                    nt = True
            if d['k'] == 'mc':
                if len(d['modules']) >= 2:
                    rec.count('compliance.multi-clause')
                    nt = True
                for c in d['modules']:
                    if c['compl'] and c['compl'][0]['c'] == 'object':
                        rec.count('compliance.leading-OBJECT')
    return nt


def prop(case, rec, backends=('json', 'pysnmp')):
    mset = case['mset']
    c, mm = setcheck.evaluate(mset, backends=backends)
    rec.evaluated()
    setcheck.classify_set(mset, rec)
    if _nontrivial(mset, rec):
        rec.mark_nontrivial(setcheck.set_digest(mset))
    for b_, f_, d_ in mm:
        if f_ in ('py-syntax', 'py-exec'):
            rec.count('pysnmp-module-not-executable(C04)')
    setcheck.raise_first(mm, FACETS, case, c)
    rec.sample({'texts': dict((k, v[:900]) for k, v in c.texts.items())})


def json_prop(case, rec):
    prop(case, rec, backends=('json',))


def compile_prop(case, rec):
    """The same oracle on the documents one MibCompiler.compile() call writes for the whole set (shared parser,
    symbol-table generator and code generator objects across the modules)."""
    from vlib.core import Violation
    mset = case['mset']
    texts, mm = setcheck.evaluate_compile(mset, genTexts=bool(case.get('genTexts')))
    rec.evaluated()
    rec.count('compile-route.sets')
    if len(mset['modules']) > 1:
        rec.mark_nontrivial(setcheck.set_digest(['compile', mset]))
    for backend, facet, detail in mm:
        root = facet.split('.')[0]
        if facet in FACETS or root in FACETS:
            raise Violation('%s:%s' % (backend, facet), detail, case, {'texts': texts})


def run(ctx):
    ctx.search('both', cases, prop, ctx.pick(2400, 50000))
    ctx.search('json', json_cases, json_prop, ctx.pick(1600, 50000))
    ctx.search('compile', json_cases, compile_prop, ctx.pick(1200, 30000))


def replay(ctx, data):
    from vlib.core import Recorder
    if data.get('search') == 'compile':
        compile_prop(data['case'], Recorder(ctx.findings))
    else:
        prop(data['case'], Recorder(ctx.findings))
