"""C14 - readers return the right file for a module name, incl. sub-directories and nested ZIPs.

Oracle: an independent reference of the documented file-name variants (as given / upper / lower case by the
matching flags, known extensions in both cases, -MIB suffix added or removed with fuzzy matching, `.index`
mapping first). A returned (info, text) is valid iff the tree / archive holds a file whose basename is info.file,
info.file is an allowed variant (or the index target), text is its bytes decoded as UTF-8 ignoring errors and
info.mtime its modification time; not-found is valid iff no non-empty file with a *required* variant name
exists where the reader is documented to look. URL dispatch is checked against an enumerated table.
"""
import io
import itertools
import os
import shutil
import tempfile
import time
import zipfile

from hypothesis import strategies as st

from vlib.core import Violation, digest

ID = 'C14'
LEVEL = 'exploration'
RULE = ('Hypothesis draws directory trees (depth 0-3, 0-10 files, duplicate basenames in different directories, '
        'directories named like MIBs, unrelated names sharing a prefix with the request) and ZIP archives (members '
        'in folders, archives nested to depth 3, stored / deflated, explicit dates) with arbitrary byte contents '
        '(invalid UTF-8 included), a requested name derived from the file stems by case changes and -MIB suffix '
        'edits, and the matching options (original / uppercase / lowcase / fuzzy matching, recursive, .index files). '
        'Non-trivial: the match needs a case change, suffix edit or extension, or lives in a sub-directory / nested '
        'archive, or a decoy shares a prefix with the request. URL shapes (8 schemes x hosts / ports / credentials x '
        'paths with and without .zip) are enumerated completely. Distinct = case hash. Archive trees: containers with '
        'same-named inner archives to depth 3, 1-5 requests on one reader (non-trivial: depth >= 2, >= 2 requests, a '
        'repeated inner name). Pairs of directory readers alive together, asked alternately. Lists of 2-4 URLs per call.')
ASSUMPTIONS = [
    'required variants: name as given / upper / lower (by flags) x known extensions; with fuzzy matching the '
    'lower- and upper-case name with -mib / -MIB appended when the name does not end in it, and the name with that '
    'suffix removed when it does; allowed variants additionally include every spelling combination of those',
    'an empty file may be reported as not found or returned as empty text',
    'when several files match, any of them is a valid answer',
    'ZIP member time = time.mktime(date_time) under TZ=UTC; file time = int(st_mtime)',
    'malformed .index lines are not generated (implicit precondition of the loader)',
]

EXTS = ['', '.txt', '.mib', '.my', '.TXT', '.MIB', '.MY']
STEMS = ['FOO-MIB', 'Foo-Mib', 'foo-mib', 'FOO', 'foo', 'Foo', 'BAR', 'bar', 'A-MIB-EXT', 'a-mib-ext', 'A', 'a', 'X-mib',
         'TESTER', 'FOO-MIB-MIB']
DECOYS = ['FOO-MIBS', 'FOO-MIB.bak', 'XFOO-MIB', 'FOO-MI', 'FOO-MIB.txt.old', 'readme', 'FOO.mib2', 'BAR-MIB-OLD.txt']
REQUESTS = ['FOO-MIB', 'Foo-Mib', 'foo-mib', 'FOO', 'foo', 'BAR', 'A-MIB-EXT', 'X-mib', 'x-MIB', 'NOPE', 'TESTER', 'Bar']


def variants(name, opts, exts=EXTS):
    """(required, allowed) sets of file names for a request."""
    bases = []
    if opts.get('originalMatching', True):
        bases.append(name)
    if opts.get('uppercaseMatching', True):
        bases.append(name.upper())
    if opts.get('lowcaseMatching', True):
        bases.append(name.lower())
    req = list(bases)
    allowed = set(bases)
    if opts.get('fuzzyMatching', True):
        low = name.lower()
        if low.endswith('-mib'):
            req += [b[:-4] for b in bases]
            allowed |= set(b[:-4] for b in bases)
        else:
            if opts.get('lowcaseMatching', True) or opts.get('uppercaseMatching', True) or True:
                req += [(name + '-mib').upper(), (name + '-mib').lower()]
            for b in bases + [name, name.upper(), name.lower()]:
                allowed |= set([b + '-mib', b + '-MIB', (b + '-mib').upper(), (b + '-mib').lower()])
    required = set(b + e for b in req for e in exts)
    allowed = set(b + e for b in allowed for e in exts) | required
    return required, allowed


@st.composite
def trees(draw):
    files = []
    n = draw(st.integers(0, 10))
    dirs = ['', 'sub', 'sub/deep', 'other', 'sub/deep/er', 'FOO-MIB']
    for i in range(n):
        if draw(st.integers(0, 4)) == 0:
            base = draw(st.sampled_from(DECOYS))
        else:
            base = draw(st.sampled_from(STEMS)) + draw(st.sampled_from(EXTS))
        d = draw(st.sampled_from(dirs))
        content = draw(st.one_of(st.sampled_from([b'', b'X DEFINITIONS ::= BEGIN END\n', b'caf\xc3\xa9 \xff\xfe bad utf8',
                                                  b'X DEFINITIONS ::= BEGIN\r\n-- dos line ends\r\nEND\r\n', b'old mac\rline\rends\r',
                                                  'héllo — ünïcode\n'.encode('utf-8')]),
                                 st.binary(min_size=1, max_size=30)))
        mtime = 1000000000 + draw(st.integers(0, 5000)) * 2
        files.append([d, base, content.hex(), mtime])
    # dedupe same path; a file cannot have the path of a directory in use
    seen = set()
    uniq = []
    used_dirs = set()
    for f in files:
        parts = f[0].split('/') if f[0] else []
        for i in range(1, len(parts) + 1):
            used_dirs.add('/'.join(parts[:i]))
    for f in files:
        key = (f[0], f[1])
        full = (f[0] + '/' + f[1]).strip('/')
        if key in seen or full in used_dirs:
            continue
        seen.add(key)
        uniq.append(f)
    opts = {}
    for k in ('originalMatching', 'uppercaseMatching', 'lowcaseMatching', 'fuzzyMatching'):
        opts[k] = draw(st.sampled_from((True, True, True, False)))
    if not (opts['originalMatching'] or opts['uppercaseMatching'] or opts['lowcaseMatching']):
        opts['originalMatching'] = True
    index = None
    if draw(st.integers(0, 4)) == 0:
        index = []
        for i in range(draw(st.integers(1, 3))):
            index.append([draw(st.sampled_from(REQUESTS)), draw(st.sampled_from([f[1] for f in uniq] + ['missing.txt', 'sub/FOO-MIB.txt']))])
    return {'files': uniq, 'opts': opts, 'recursive': draw(st.booleans()), 'request': draw(st.sampled_from(REQUESTS)),
            'index': index, 'zipdepth': draw(st.integers(0, 3)), 'deflate': draw(st.booleans()), 'tz': draw(st.integers(0, 3))}


def build_dir(case, root):
    for d, base, hexc, mtime in case['files']:
        p = os.path.join(root, d)
        os.makedirs(p, exist_ok=True)
        fp = os.path.join(p, base)
        if os.path.isdir(fp):
            continue
        with open(fp, 'wb') as fh:
            fh.write(bytes.fromhex(hexc))
        os.utime(fp, (mtime, mtime))
    if case.get('index'):
        with open(os.path.join(root, '.index'), 'w') as fh:
            for k, v in case['index']:
                fh.write('%s %s\n' % (k, v))


def _ask(reader, name, case):
    from pysmi import error
    try:
        info, text = reader.getData(name)
        return (info, text)
    except error.PySmiReaderFileNotFoundError:
        return None
    except Exception as e:
        raise Violation('reader-raised', '%r' % (e,), case)


def file_prop(case, rec):
    from pysmi.reader.localfile import FileReader
    root = tempfile.mkdtemp(prefix='c14f')
    try:
        build_dir(case, root)
        reader = FileReader(root, recursive=case['recursive']).setOptions(**case['opts'])
        got = _ask(reader, case['request'], case)
        rec.evaluated()
        _judge_file(case, root, got, rec)
    finally:
        shutil.rmtree(root, ignore_errors=True)


@st.composite
def tree_pairs(draw):
    return {'a': draw(trees()), 'b': draw(trees()), 'order': draw(st.lists(st.sampled_from(('a', 'b')), min_size=2, max_size=4))}


def pair_prop(case, rec):
    """Two directory sources alive at the same time (as compile() holds them): each answers from its own directory,
    its own .index and its own options, whatever the other one was asked before."""
    from pysmi.reader.localfile import FileReader
    roots = {}
    try:
        readers = {}
        for k in ('a', 'b'):
            roots[k] = tempfile.mkdtemp(prefix='c14p')
            build_dir(case[k], roots[k])
        for k in ('a', 'b'):
            readers[k] = FileReader(roots[k], recursive=case[k]['recursive']).setOptions(**case[k]['opts'])
        for k in case['order']:
            got = _ask(readers[k], case[k]['request'], case)
            rec.evaluated()
            try:
                _judge_file(case[k], roots[k], got, rec, sample=False)
            except Violation as v:
                raise Violation('second-reader:' + v.facet, 'reader %s of a pair, asked in the order %r: %s' % (k, case['order'], v.detail), case)
        if case['a'].get('index') or case['b'].get('index'):
            rec.count('pair.with-index')
            rec.mark_nontrivial(digest(['pair', case]))
    finally:
        for r in roots.values():
            shutil.rmtree(r, ignore_errors=True)


def _judge_file(case, root, got, rec, sample=True):
    name = case['request']
    if True:
        # files visible to this reader
        visible = []
        for d, base, hexc, mtime in case['files']:
            p = os.path.join(root, d, base)
            if not os.path.isfile(p):
                continue
            if d == '' or case['recursive']:
                visible.append((d, base, bytes.fromhex(hexc), mtime))
        idx = dict((k, v) for k, v in (case.get('index') or []))
        required, allowed = variants(name, case['opts'])
        if name in idx:
            target = idx[name]
            cands = []
            everything = [(d, base, bytes.fromhex(hexc), mtime) for d, base, hexc, mtime in case['files']
                          if os.path.isfile(os.path.join(root, d, base))]
            for d, base, content, mtime in everything:
                # the index target (which may carry a sub-path, reachable also by a non-recursive reader) is looked up
                # relative to every searched directory
                full = os.path.normpath(os.path.join(d, base))
                for sd in set([''] + ([x[0] for x in case['files']] if case['recursive'] else [])):
                    if os.path.normpath(os.path.join(sd, target)) == full:
                        cands.append((d, base, content, mtime))
            rec.count('request.indexed')
            if got is None:
                if any(c[2] for c in cands):
                    raise Violation('indexed-file-not-found', '%s -> %s exists' % (name, target), case)
            else:
                info, text = got
                if info.file != target:
                    raise Violation('index-not-honoured', 'index maps %s to %s, reader returned %s' % (name, target, info.file), case)
                if not any(text == c[2].decode('utf-8', 'ignore') and info.mtime == c[3] for c in cands):
                    raise Violation('wrong-content', 'indexed %s' % target, case)
            return
        matches_req = [v for v in visible if v[1] in required]
        if got is None:
            rec.count('answer.notfound')
            if any(v[2] for v in matches_req):
                raise Violation('variant-exists-but-not-found', 'request %s, options %r: files %r exist' % (
                    name, case['opts'], sorted(set(v[1] for v in matches_req if v[2]))), case)
        else:
            info, text = got
            rec.count('answer.found')
            if info.file not in allowed:
                raise Violation('unrelated-file-returned', 'request %s (options %r) returned file %r' % (name, case['opts'], info.file), case)
            same = [v for v in visible if v[1] == info.file]
            if not any(text == v[2].decode('utf-8', 'ignore') and info.mtime == v[3] for v in same):
                raise Violation('wrong-content-or-mtime', 'file %s: text %r mtime %r; candidates %r' % (
                    info.file, text[:40], info.mtime, [(v[0], v[3]) for v in same]), case)
            if info.name + '' not in [b for b in allowed] and not any(info.file == info.name + e for e in EXTS):
                raise Violation('alias-not-stem', 'name %r file %r' % (info.name, info.file), case)
            if info.file != name or any(v[0] for v in same):
                rec.mark_nontrivial(digest(case))
        if any(v[1] in DECOYS or (v[1] not in allowed and v[1].upper().startswith(name.upper()[:3])) for v in visible):
            rec.mark_nontrivial(digest(case))
        if sample:
            rec.sample({'files': [f[:2] for f in case['files']], 'request': name, 'opts': case['opts'],
                        'answer': None if got is None else got[0].file})


# ---------------------------------------------------------------------------
# ZIP archives


def _zip_bytes(members, deflate):
    buf = io.BytesIO()
    with zipfile.ZipFile(buf, 'w', zipfile.ZIP_DEFLATED if deflate else zipfile.ZIP_STORED) as z:
        for name, data, dt in members:
            zi = zipfile.ZipInfo(name, date_time=dt)
            zi.compress_type = zipfile.ZIP_DEFLATED if deflate else zipfile.ZIP_STORED
            z.writestr(zi, data)
    return buf.getvalue()


def build_zip(case):
    """Files with directory d are placed: depth 0 -> top archive; 'sub' -> folder; others nested archives."""
    levels = {}
    for d, base, hexc, mtime in case['files']:
        if base.lower().endswith('.zip'):
            continue
        depth = min(case['zipdepth'], {'': 0, 'sub': 0, 'other': 1, 'sub/deep': 2, 'sub/deep/er': 3, 'FOO-MIB': 1}.get(d, 0))
        dt = time.gmtime(mtime)[:6]
        # ZIP stores even seconds only
        dt = dt[:5] + (dt[5] - dt[5] % 2,)
        folder = 'folder/' if d == 'sub' else ''
        if any(m[0] == folder + base for m in levels.get(depth, [])):
            continue   # one member per path and archive
        levels.setdefault(depth, []).append((folder + base, bytes.fromhex(hexc), dt, depth))
    blob = None
    maxd = max(levels) if levels else 0
    for depth in range(maxd, -1, -1):
        members = [(n, c, dt) for n, c, dt, _ in levels.get(depth, [])]
        if blob is not None:
            members.append(('nested/in%d.%s' % (depth + 1, 'ZIP' if depth % 2 else 'zip'), blob, (2020, 1, 1, 0, 0, 0)))
        blob = _zip_bytes(members, case['deflate'])
    return blob if blob is not None else _zip_bytes([], case['deflate']), levels


class _tz(object):
    """Process time zone for one case: ZIP directories store local wall-clock times, so the member time a reader
    reports is time.mktime() of them - also inside a daylight-saving period (isdst unknown, not 'standard time')."""

    def __init__(self, name):
        self.name = name

    def __enter__(self):
        self.old = os.environ.get('TZ')
        os.environ['TZ'] = self.name
        time.tzset()

    def __exit__(self, *a):
        if self.old is None:
            os.environ.pop('TZ', None)
        else:
            os.environ['TZ'] = self.old
        time.tzset()
        return False


ZONES = ('UTC', 'UTC', 'EST5EDT,M3.2.0,M11.1.0', 'CET-1CEST,M3.5.0,M10.5.0/3')


def zip_prop(case, rec):
    with _tz(ZONES[case.get('tz', 0) % len(ZONES)]):
        rec.count('zip.tz.' + ZONES[case.get('tz', 0) % len(ZONES)].split(',')[0])
        _zip_prop(case, rec)


def _zip_prop(case, rec):
    from pysmi.reader.zipreader import ZipReader
    from pysmi import error
    root = tempfile.mkdtemp(prefix='c14z')
    try:
        blob, levels = build_zip(case)
        path = os.path.join(root, 'mibs.zip')
        with open(path, 'wb') as fh:
            fh.write(blob)
        reader = ZipReader(path).setOptions(**case['opts'])
        name = case['request']
        try:
            info, text = reader.getData(name)
            got = (info, text)
        except error.PySmiReaderFileNotFoundError:
            got = None
        except Exception as e:
            raise Violation('reader-raised', '%r' % (e,), case)
        rec.evaluated()
        members = [m for lst in levels.values() for m in lst]
        required, allowed = variants(name, case['opts'])
        by_base = {}
        for n, c, dt, depth in members:
            by_base.setdefault(os.path.basename(n), []).append((c, time.mktime(dt + (0, 0, -1)), depth))
        req_hits = [b for b in by_base if b in required and any(c for c, _, _ in by_base[b])]
        maxdepth = max([m[3] for m in members] or [0])
        rec.count('zip.depth.%d' % maxdepth)
        if got is None:
            rec.count('zip.notfound')
            # duplicates of a basename at several depths may shadow each other; require a find only when every
            # copy of some required name is non-empty
            sure = [b for b in req_hits if all(c for c, _, _ in by_base[b])]
            if sure:
                raise Violation('zip-member-not-found', 'request %s: members %r exist (max nesting depth %d)' % (
                    name, sorted(sure), maxdepth), case)
        else:
            info, text = got
            rec.count('zip.found')
            if info.file not in allowed:
                raise Violation('unrelated-file-returned', 'request %s returned member %r' % (name, info.file), case)
            cands = by_base.get(info.file, [])
            if not any(text == c.decode('utf-8', 'ignore') and (info.mtime == mt) for c, mt, _ in cands):
                raise Violation('wrong-content-or-mtime', 'member %s: text %r mtime %r; candidates %r' % (
                    info.file, text[:40], info.mtime, [(c[:10], mt) for c, mt, _ in cands]), case)
            if any(d for c, mt, d in cands) or info.file != name:
                rec.mark_nontrivial(digest(['zip', case]))
        if maxdepth >= 1:
            rec.mark_nontrivial(digest(['zipd', case]))
    finally:
        shutil.rmtree(root, ignore_errors=True)


# ---------------------------------------------------------------------------
# Archive trees (siblings that hold same-named inner archives) read through ONE reader, several requests in a row

INNER_NAMES = ['mibs.zip', 'in.zip', 'sub/mibs.zip', 'MORE.ZIP', 'deep/er/in.zip']
CONTENTS = [b'X DEFINITIONS ::= BEGIN END\n', b'caf\xc3\xa9 \xff\xfe bad utf8', b'one\r\ntwo\r\n', b'mac\rline\r', b'A', b'B', b'C']


@st.composite
def archive(draw, depth):
    files = []
    for i in range(draw(st.integers(0, 3))):
        base = draw(st.sampled_from(STEMS)) + draw(st.sampled_from(EXTS))
        folder = draw(st.sampled_from(['', '', 'folder/', 'a/b/']))
        content = draw(st.one_of(st.sampled_from(CONTENTS), st.binary(min_size=1, max_size=12)))
        mtime = 1000000000 + draw(st.integers(0, 5000)) * 2
        if not any(f[0] == folder + base for f in files):
            files.append([folder + base, content.hex(), mtime])
    kids = []
    if depth > 0:
        for i in range(draw(st.integers(0, 3))):
            nm = draw(st.sampled_from(INNER_NAMES))
            if not any(k[0] == nm for k in kids):
                kids.append([nm, draw(archive(depth - 1))])
    return {'files': files, 'kids': kids}


@st.composite
def archive_trees(draw):
    opts = {}
    for k in ('originalMatching', 'uppercaseMatching', 'lowcaseMatching', 'fuzzyMatching'):
        opts[k] = draw(st.sampled_from((True, True, True, False)))
    if not (opts['originalMatching'] or opts['uppercaseMatching'] or opts['lowcaseMatching']):
        opts['originalMatching'] = True
    return {'root': draw(archive(3)), 'opts': opts, 'deflate': draw(st.booleans()), 'tz': draw(st.integers(0, 3)),
            'requests': draw(st.lists(st.sampled_from(REQUESTS), min_size=1, max_size=5))}


def _arch_bytes(a, deflate, out, depth):
    members = []
    for name, hexc, mtime in a['files']:
        dt = time.gmtime(mtime)[:6]
        dt = dt[:5] + (dt[5] - dt[5] % 2,)
        members.append((name, bytes.fromhex(hexc), dt))
        out.append((os.path.basename(name), bytes.fromhex(hexc), time.mktime(dt + (0, 0, -1)), depth))
    for nm, kid in a['kids']:
        members.append((nm, _arch_bytes(kid, deflate, out, depth + 1), (2020, 1, 1, 0, 0, 0)))
    return _zip_bytes(members, deflate)


def ziptree_prop(case, rec):
    with _tz(ZONES[case.get('tz', 0) % len(ZONES)]):
        _ziptree_prop(case, rec)


def _ziptree_prop(case, rec):
    from pysmi.reader.zipreader import ZipReader
    from pysmi import error
    root = tempfile.mkdtemp(prefix='c14t')
    try:
        allfiles = []
        blob = _arch_bytes(case['root'], case['deflate'], allfiles, 0)
        path = os.path.join(root, 'mibs.zip')
        with open(path, 'wb') as fh:
            fh.write(blob)
        reader = ZipReader(path).setOptions(**case['opts'])
        by_base = {}
        for b, c, mt, depth in allfiles:
            by_base.setdefault(b, []).append((c, mt, depth))
        maxdepth = max([f[3] for f in allfiles] or [0])
        rec.count('ziptree.depth.%d' % maxdepth)
        rec.count('ziptree.requests.%d' % len(case['requests']))

        def count_archives(a):
            return 1 + sum(count_archives(k) for _, k in a['kids'])

        def same_named(a, seen):
            for nm, k in a['kids']:
                seen.setdefault(os.path.basename(nm), []).append(1)
                same_named(k, seen)
            return seen
        dup_inner = any(len(v) > 1 for v in same_named(case['root'], {}).values())
        if dup_inner:
            rec.count('ziptree.same-named-inner-archives')
        for step, name in enumerate(case['requests']):
            try:
                got = reader.getData(name)
            except error.PySmiReaderFileNotFoundError:
                got = None
            except Exception as e:
                raise Violation('reader-raised', 'request %d (%s): %r' % (step, name, e), case)
            rec.evaluated()
            required, allowed = variants(name, case['opts'])
            sure = [b for b in by_base if b in required and all(c for c, _, _ in by_base[b])]
            if got is None:
                if sure:
                    raise Violation('zip-member-not-found', 'request %d of %r on one reader: %s not found, members %r exist '
                                    '(max nesting depth %d)' % (step, case['requests'], name, sorted(sure), maxdepth), case)
            else:
                info, text = got
                if info.file not in allowed:
                    raise Violation('unrelated-file-returned', 'request %s returned member %r' % (name, info.file), case)
                cands = by_base.get(info.file, [])
                if not any(text == c.decode('utf-8', 'ignore') and info.mtime == mt for c, mt, _ in cands):
                    raise Violation('wrong-content-or-mtime', 'request %d (%s): member %s: text %r mtime %r; candidates %r' % (
                        step, name, info.file, text[:40], info.mtime, [(c[:10], mt) for c, mt, _ in cands]), case)
        if maxdepth >= 2 and len(case['requests']) >= 2 and dup_inner:
            rec.mark_nontrivial(digest(['ziptree', case]))
        if dup_inner and len(rec.samples) < 2:
            rec.sample({'archives': count_archives(case['root']), 'requests': case['requests']})
    finally:
        shutil.rmtree(root, ignore_errors=True)


# ---------------------------------------------------------------------------
# URL dispatch (enumerated)


def url_table():
    rows = []
    paths = ['/usr/share/mibs', '/tmp/m.zip', '/tmp/M.ZIP', '/a/b/@mib@', '/x%20y/mibs', '/arch.zip/inner', 'relative/dir', 'rel.zip']
    for p in paths:
        rows.append((p, 'zip' if p.lower().endswith('.zip') else 'file', {'path': p.replace('%20', ' ')}))
        if p.startswith('/'):
            rows.append(('file://' + p, 'file', {'path': p.replace('%20', ' ')}))
            rows.append(('zip://' + p, 'zip' if p.lower().endswith('.zip') else 'file', {'path': p.replace('%20', ' ')}))
    for scheme, ssl in (('http', False), ('https', True)):
        for host, port in (('example.org', None), ('example.org', 8080), ('10.0.0.1', 8443)):
            for p in ('/mibs/@mib@', '/asn1/', '/x.zip'):
                netloc = host + (':%d' % port if port else '')
                rows.append(('%s://%s%s' % (scheme, netloc, p), 'http', {'host': host, 'port': port or 80, 'ssl': ssl, 'loc': p}))
    for scheme, ssl in (('ftp', False), ('sftp', True)):
        for cred in ('', 'user:pw@'):
            for port in (None, 2121):
                rows.append(('%s://%sftp.example.org%s/pub/@mib@' % (scheme, cred, ':%d' % port if port else ''), 'ftp',
                             {'host': 'ftp.example.org', 'port': port or 21, 'ssl': ssl, 'user': 'user' if cred else 'anonymous'}))
    for bad in ('gopher://x/y', 'ldap://h/p', 'mailto:a@b', 'smb://h/s'):
        rows.append((bad, 'error', {}))
    return rows


def _judge_reader(row, r, case):
    from pysmi.reader.localfile import FileReader
    from pysmi.reader.zipreader import ZipReader
    from pysmi.reader.httpclient import HttpReader
    from pysmi.reader.ftpclient import FtpReader
    url, kind, want = row
    cls = {'file': FileReader, 'zip': ZipReader, 'http': HttpReader, 'ftp': FtpReader}[kind]
    if type(r) is not cls:
        raise Violation('wrong-reader-kind', '%s -> %s, expected %s' % (url, type(r).__name__, cls.__name__), case)
    if r.fuzzyMatching is not False:
        raise Violation('reader-options-not-applied', url, case)
    if kind == 'file' and r._path != os.path.normpath(want['path']):
        raise Violation('reader-path', '%s -> %r, expected %r' % (url, r._path, want['path']), case)
    if kind == 'zip' and r._name != want['path']:
        raise Violation('reader-path', '%s -> %r, expected %r' % (url, r._name, want['path']), case)
    if kind == 'http':
        exp = '%s://%s:%d%s' % ('https' if want['ssl'] else 'http', want['host'], want['port'], want['loc'])
        if r._url != exp:
            raise Violation('http-reader-url', '%s -> %r, expected %r' % (url, r._url, exp), case)
    if kind == 'ftp':
        got = (r._host, r._port, bool(r._ssl), r._user)
        if got != (want['host'], want['port'], want['ssl'], want['user']):
            raise Violation('ftp-reader-params', '%s -> %r, expected %r' % (url, got, want), case)


def url_prop(row, rec):
    from pysmi.reader.url import getReadersFromUrls
    from pysmi.reader.localfile import FileReader
    from pysmi.reader.zipreader import ZipReader
    from pysmi.reader.httpclient import HttpReader
    from pysmi.reader.ftpclient import FtpReader
    from pysmi import error
    url, kind, want = row
    case = {'url': url, 'kind': kind, 'want': want}
    try:
        readers = getReadersFromUrls(url, **dict(fuzzyMatching=False))
    except error.PySmiError:
        readers = 'error'
    except Exception as e:
        raise Violation('url-foreign-exception', '%s: %r' % (url, e), case)
    rec.evaluated()
    rec.mark_nontrivial(digest(['url', url]))
    rec.count('url.' + kind)
    if kind == 'error':
        if readers != 'error':
            raise Violation('unknown-scheme-accepted', url, case)
        return
    if readers == 'error' or len(readers) != 1:
        raise Violation('url-rejected', '%s -> %r' % (url, readers), case)
    _judge_reader(row, readers[0], case)
    if len(rec.samples) < 3:
        rec.sample(case)


@st.composite
def url_lists(draw):
    rows = url_table()
    idx = draw(st.lists(st.integers(0, len(rows) - 1), min_size=2, max_size=4))
    return {'rows': idx}


def urllist_prop(case, rec):
    """One call with several URLs: every reader is the one its own URL denotes, in the order given."""
    from pysmi.reader.url import getReadersFromUrls
    from pysmi import error
    rows = [url_table()[i] for i in case['rows']]
    urls = [r[0] for r in rows]
    try:
        readers = getReadersFromUrls(*urls, **dict(fuzzyMatching=False))
    except error.PySmiError:
        readers = 'error'
    except Exception as e:
        raise Violation('url-foreign-exception', '%r: %r' % (urls, e), case)
    rec.evaluated()
    kinds = [r[1] for r in rows]
    rec.count('urllist.' + '+'.join(sorted(set(kinds))))
    if 'error' in kinds:
        if readers != 'error':
            raise Violation('unknown-scheme-accepted', repr(urls), case)
        return
    if readers == 'error' or len(readers) != len(rows):
        raise Violation('url-rejected', '%r -> %r' % (urls, readers), case)
    for row, r in zip(rows, readers):
        _judge_reader(row, r, dict(case, urls=urls))
    if len(set(kinds)) > 1:
        rec.mark_nontrivial(digest(['urllist', urls]))


# ---------------------------------------------------------------------------
# HttpReader (stubbed urlopen) and CallbackReader


@st.composite
def http_cases(draw):
    stems = draw(st.lists(st.sampled_from(STEMS), max_size=4, unique=True))
    served = [s + draw(st.sampled_from(EXTS)) for s in stems]
    opts = {}
    for k in ('originalMatching', 'uppercaseMatching', 'lowcaseMatching', 'fuzzyMatching'):
        opts[k] = draw(st.sampled_from((True, True, False)))
    if not (opts['originalMatching'] or opts['uppercaseMatching'] or opts['lowcaseMatching']):
        opts['originalMatching'] = True
    return {'served': served, 'opts': opts, 'request': draw(st.sampled_from(REQUESTS)), 'magic': draw(st.booleans())}


def http_prop(case, rec):
    import pysmi.reader.httpclient as hc
    from pysmi import error

    class Resp(object):
        def __init__(self, body):
            self.code = 200
            self.body = body

        def getheader(self, name):
            return 'Mon, 01 Jan 2001 00:00:00 GMT'

        def read(self, n=-1):
            return self.body

    served = dict(('http://h:80/mibs/%s' % (s + '.x' if case['magic'] else s), ('body of ' + s).encode()) for s in case['served'])
    asked = []

    def fake_urlopen(req):
        url = req.full_url
        asked.append(url)
        if url in served:
            return Resp(served[url])
        raise IOError('404')

    real = hc.urlopen
    hc.urlopen = fake_urlopen
    try:
        r = hc.HttpReader('h', 80, '/mibs/@mib@.x' if case['magic'] else '/mibs/').setOptions(**case['opts'])
        try:
            info, text = r.getData(case['request'])
            got = (info, text)
        except error.PySmiReaderFileNotFoundError:
            got = None
        except Exception as e:
            raise Violation('http-reader-raised', repr(e), case)
    finally:
        hc.urlopen = real
    rec.evaluated()
    required, allowed = variants(case['request'], case['opts'])
    hits = [s for s in case['served'] if s in required]
    if got is None:
        if hits:
            raise Violation('http-variant-not-fetched', 'request %s: server has %r; asked %r' % (case['request'], hits, asked[:10]), case)
    else:
        info, text = got
        if info.file not in allowed or info.file not in case['served']:
            raise Violation('http-unrelated-file', '%r' % info.file, case)
        if text != 'body of ' + info.file:
            raise Violation('http-wrong-content', repr(text), case)
        rec.mark_nontrivial(digest(['http', case]))
    rec.count('http.' + ('found' if got else 'notfound'))


def callback_prop(ctx):
    def p(rec):
        from pysmi.reader.callback import CallbackReader
        from pysmi import error
        store = {'A-MIB': 'text A', 'b': 'text b'}
        seen = []
        r = CallbackReader(lambda name, ctx_: (seen.append((name, ctx_)), store.get(name))[1], 'ctx')
        for name in ('A-MIB', 'b', 'a-mib', 'nope'):
            try:
                info, text = r.getData(name)
                if name not in store or text != store[name] or info.name != name:
                    raise Violation('callback-reader', '%s -> %r' % (name, text), {'name': name})
            except error.PySmiReaderFileNotFoundError:
                if name in store:
                    raise Violation('callback-reader', '%s not found' % name, {'name': name})
            rec.evaluated()
        if seen != [('A-MIB', 'ctx'), ('b', 'ctx'), ('a-mib', 'ctx'), ('nope', 'ctx')]:
            raise Violation('callback-reader-calls', repr(seen), {})
    ctx.inline('callback', p)


PROBE_D27 = {'files': [['other', 'INNER-MIB', b'INNER DEFINITIONS ::= BEGIN END'.hex(), 1000000000], ['', 'TOP-MIB', b'top'.hex(), 1000000000]],
             'opts': {}, 'recursive': True, 'request': 'INNER-MIB', 'index': None, 'zipdepth': 1, 'deflate': False}
PROBE_D26 = {'files': [['', 'A', b'unrelated'.hex(), 1000000000]], 'opts': {}, 'recursive': True, 'request': 'A-MIB-EXT',
             'index': None, 'zipdepth': 0, 'deflate': False}


def probes(ctx):
    def p(rec):
        from vlib.core import Recorder
        for fid, case, fn in (('D27', PROBE_D27, zip_prop), ('D26', PROBE_D26, file_prop)):
            bad = False
            try:
                fn(case, Recorder({}))
            except Violation:
                bad = True
            rec.evaluated()
            ctx.probe(fid, bad)
    ctx.inline('probe', p)


def run(ctx):
    ctx.search('dirs', trees, file_prop, ctx.pick(4000, 120000))
    ctx.search('dir-pairs', tree_pairs, pair_prop, ctx.pick(1200, 40000))
    ctx.search('zips', trees, zip_prop, ctx.pick(2400, 80000))
    ctx.search('http', http_cases, http_prop, ctx.pick(2000, 40000))
    ctx.search('ziptrees', archive_trees, ziptree_prop, ctx.pick(1600, 50000))
    ctx.sweep('urls', url_table(), url_prop)
    ctx.search('urllists', url_lists, urllist_prop, ctx.pick(1600, 30000))
    callback_prop(ctx)
    probes(ctx)
    ctx.extra_cov['exhaustive_subdomain'] = 'URL dispatch table: %d URL shapes enumerated completely' % len(url_table())


def replay(ctx, data):
    from vlib.core import Recorder
    rec = Recorder(ctx.findings)
    case = data['case']
    s = data.get('search')
    if s == 'zips':
        zip_prop(case, rec)
    elif s == 'dir-pairs':
        pair_prop(case, rec)
    elif s == 'ziptrees':
        ziptree_prop(case, rec)
    elif s == 'urllists':
        urllist_prop(case, rec)
    elif s == 'http':
        http_prop(case, rec)
    elif s == 'urls':
        url_prop((case['url'], case['kind'], case['want']), rec)
    else:
        file_prop(case, rec)
