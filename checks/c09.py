"""C09 - nothing is written when any module fails, unless errors are ignored.

Invariant (vlib/orchinv.all_or_nothing): with F = modules that cannot be found / parsed / code-generated and that
no borrower supplied, F != {} and not ignoreErrors  =>  zero putData calls, no compiled/borrowed status, every
built module unprocessed, members of F failed/missing; with ignoreErrors every built module is written once and
reported compiled/borrowed while F keeps failed/missing.
"""
from hypothesis import strategies as st

from vlib.core import digest
from vlib import orch, orchinv

ID = 'C09'
LEVEL = 'exploration'
RULE = ('Hypothesis draws orchestration scenarios (1-4 user modules, any import graph, 1-3 sources) with failure '
        'placements over missing source, reader error, lexical / syntax / truncated / semantic / empty text and code '
        'generation failure, with ignoreErrors on and off, with and without borrowers (and writer failures, which do '
        'not count as failures of the closure). Non-trivial: the failure set is non-empty and >= 1 healthy module was '
        'built. Distinct = scenario hash. Earlier compile() calls on the same object in a quarter of the scenarios; the '
        'small scope (see C07) without searchers is enumerated completely in the thorough tier (every 31st in quick).')
ASSUMPTIONS = [
    'writer failures are not part of the failure set (the statement lists find / parse / generate)',
    'a failed dependency that is not offered to borrowers under noDeps still counts as a failure',
]


def cases():
    return orch.scenarios(searchers=False, bad_extra=True)


def prop(case, rec):
    sc = case
    out = orch.run(sc)
    rec.evaluated()
    orchinv.basic(sc, out, case)
    f = orchinv.facts(sc, out)
    info = orchinv.all_or_nothing(sc, out, case, f)
    rec.count('ignoreErrors.%s' % bool(sc['options'].get('ignoreErrors')))
    rec.count('failures.%d' % min(len(info['F']), 3))
    if sc['borrowers']:
        rec.count('with-borrowers')
    if info['F'] and info['built']:
        rec.mark_nontrivial(digest(sc))
        rec.count('gate-exercised')
    rec.sample({'sources': sc['sources'], 'options': sc['options'], 'F': info['F'], 'built': info['built'],
                'result': dict((k, str(v)) for k, v in out.result.items())})


def run(ctx):
    ctx.search('gate', cases, prop, ctx.pick(24000, 500000))

    def small(sc, rec):
        if sc['searchers']:
            return
        prop(sc, rec)
    orch.small_sweep(ctx, small, quick_stride=31)


def replay(ctx, data):
    from vlib.core import Recorder
    prop(data['case'], Recorder(ctx.findings))
